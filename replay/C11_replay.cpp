// native replay for C11 (early-stopping monitor): feeds error histories to the REAL gboost::early_stopping_t (compiled from
// the working tree: src/gboost/early_stopping.cpp + src/gboost/util.cpp) and compares every answer and the whole reported
// state with a reference monitor written from the property statement:
//   "for every history of (training, validation) error values the monitor stops exactly when the training error drops below
//    epsilon or no validation improvement larger than epsilon was accepted in the last `patience` rounds, and reports the
//    round of the last accepted improvement with that round's per-sample values"
// (without validation samples every round counts as an accepted improvement: the refitting step runs to the given round).
// usage: C11_replay exhaustive [max_length=4]      all histories up to max_length over a 5-value alphabet, patience 1..4,
//                                                  with / without validation samples; then random longer histories
//        C11_replay history <patience> <has_valid 0|1> <epsilon> <t0> <v0> <t1> <v1> ...     one history
// exit 0: real monitor == reference on every history; exit 1: a mismatch (printed as JSON); exit 2: usage.
#include <nano/gboost/early_stopping.h>
#include <cstdio>
#include <cstdlib>
#include <cstring>
#include <limits>
#include <random>
#include <vector>

using namespace nano;

namespace
{
struct reference_t
{
    size_t round{0};
    double value{std::numeric_limits<double>::max()};
    int    snapshot{-1}; // observation index whose per-sample values are reported (-1: the ones given at construction)

    // one observation: returns true = stop
    bool observe(const double train, const double valid, const bool has_valid, const size_t learners, const double epsilon,
                 const size_t patience, const int observation)
    {
        const auto accept = [&]()
        {
            value    = valid;
            round    = learners;
            snapshot = observation;
        };
        if (train < epsilon)
        {
            accept(); // training error below epsilon: stop at this round
            return true;
        }
        if (!has_valid || valid < value - epsilon)
        {
            accept(); // an improvement larger than epsilon (or nothing to validate on): this round is the optimum so far
            return false;
        }
        return !(learners < round + patience); // no accepted improvement in the last `patience` rounds: stop
    }
};

// (2, 2) values of observation k: errors (row 0) = (train, valid) for samples (0, 1); losses (row 1) tag the observation
tensor2d_t make_values(const double train, const double valid, const int k)
{
    tensor2d_t values(2, 2);
    values(0, 0) = train;
    values(0, 1) = valid;
    values(1, 0) = static_cast<double>(k);
    values(1, 1) = static_cast<double>(k) + 0.5;
    return values;
}

bool same(const tensor2d_t& a, const tensor2d_t& b)
{
    if (a.dims() != b.dims())
    {
        return false;
    }
    for (tensor_size_t i = 0; i < a.size(); ++i)
    {
        if (!(a(i) == b(i)))
        {
            return false;
        }
    }
    return true;
}

long long g_histories = 0, g_observations = 0;

// returns true when the real monitor agrees with the reference on the whole history (until the first stop)
bool run(const std::vector<double>& train, const std::vector<double>& valid, const size_t patience, const bool has_valid,
         const double epsilon, const bool verbose)
{
    indices_t train_samples(1);
    train_samples(0) = 0;
    indices_t valid_samples(has_valid ? 1 : 0);
    if (has_valid)
    {
        valid_samples(0) = 1;
    }

    const auto initial = make_values(-1.0, -1.0, -1);
    auto       real    = gboost::early_stopping_t{initial};
    auto       ref     = reference_t{};
    auto       seen    = std::vector<tensor2d_t>{};
    ++g_histories;

    for (size_t k = 0; k < train.size(); ++k)
    {
        // observation k is made with k weak learners (round 0 = bias only)
        const auto wlearners = rwlearners_t(k);
        seen.push_back(make_values(train[k], valid[k], static_cast<int>(k)));
        const auto& values = seen.back();
        ++g_observations;

        const auto valid_mean = has_valid ? valid[k] : 0.0; // the mean over no samples is 0 (sum / max(size, 1))
        const auto stop_ref   = ref.observe(train[k], valid_mean, has_valid, k, epsilon, patience, static_cast<int>(k));
        const auto stop_real  = real.done(values, train_samples, valid_samples, wlearners, epsilon, patience);

        const auto& snap_ref = ref.snapshot < 0 ? initial : seen[static_cast<size_t>(ref.snapshot)];
        const auto  ok       = stop_real == stop_ref && real.round() == ref.round && real.value() == ref.value &&
                        same(real.values(), snap_ref);
        if (!ok || verbose)
        {
            std::printf("{\"ok\": %s, \"patience\": %zu, \"has_valid\": %d, \"epsilon\": %.17g, \"observation\": %zu, \"history\": [",
                        ok ? "true" : "false", patience, has_valid ? 1 : 0, epsilon, k);
            for (size_t j = 0; j <= k; ++j)
            {
                std::printf("%s[%.17g, %.17g]", j ? ", " : "", train[j], valid[j]);
            }
            std::printf("], \"real\": {\"stop\": %d, \"round\": %zu, \"value\": %.17g, \"snapshot_of_observation\": %.17g}, "
                        "\"reference\": {\"stop\": %d, \"round\": %zu, \"value\": %.17g, \"snapshot_of_observation\": %d}}\n",
                        stop_real ? 1 : 0, real.round(), real.value(), real.values()(1, 0), stop_ref ? 1 : 0, ref.round, ref.value,
                        ref.snapshot);
        }
        if (!ok)
        {
            return false;
        }
        if (stop_ref)
        {
            break; // the boosting loop stops consulting the monitor here
        }
    }
    return true;
}
} // namespace

int main(int argc, char** argv)
{
    if (argc >= 2 && std::strcmp(argv[1], "history") == 0 && argc >= 7 && (argc - 5) % 2 == 0)
    {
        const auto patience  = static_cast<size_t>(std::strtoull(argv[2], nullptr, 10));
        const auto has_valid = std::atoi(argv[3]) != 0;
        const auto epsilon   = std::strtod(argv[4], nullptr);
        auto       train = std::vector<double>{}, valid = std::vector<double>{};
        for (int i = 5; i + 1 < argc; i += 2)
        {
            train.push_back(std::strtod(argv[i], nullptr));
            valid.push_back(std::strtod(argv[i + 1], nullptr));
        }
        return run(train, valid, patience, has_valid, epsilon, true) ? 0 : 1;
    }
    if (argc >= 2 && std::strcmp(argv[1], "exhaustive") == 0)
    {
        const auto max_length = argc >= 3 ? static_cast<size_t>(std::atoi(argv[2])) : size_t{4};
        const auto epsilon    = 0.1;
        // below epsilon | steps smaller and larger than epsilon apart | exact zero
        const double alphabet[5] = {0.0, 0.05, 0.12, 0.2, 0.5};
        auto         failures    = 0;
        for (size_t patience = 1; patience <= 4 && failures == 0; ++patience)
        {
            for (int has_valid = 0; has_valid <= 1 && failures == 0; ++has_valid)
            {
                for (size_t length = 1; length <= max_length && failures == 0; ++length)
                {
                    // without validation samples the validation value is not observed: enumerate the training values only
                    const auto digits = has_valid ? 2 * length : length;
                    auto       total  = size_t{1};
                    for (size_t d = 0; d < digits; ++d)
                    {
                        total *= 5;
                    }
                    auto train = std::vector<double>(length), valid = std::vector<double>(length);
                    for (size_t code = 0; code < total && failures == 0; ++code)
                    {
                        auto c = code;
                        for (size_t k = 0; k < length; ++k)
                        {
                            train[k] = alphabet[c % 5];
                            c /= 5;
                            valid[k] = has_valid ? alphabet[c % 5] : 0.7;
                            c        = has_valid ? c / 5 : c;
                        }
                        failures += run(train, valid, patience, has_valid != 0, epsilon, false) ? 0 : 1;
                    }
                }
            }
        }
        // longer random histories (mostly above epsilon so that they are not cut short)
        auto rng = std::mt19937_64{42};
        for (int trial = 0; trial < 20000 && failures == 0; ++trial)
        {
            const auto length    = static_cast<size_t>(5 + rng() % 12);
            const auto patience  = static_cast<size_t>(1 + rng() % 6);
            const auto has_valid = (rng() % 4) != 0;
            auto       train = std::vector<double>(length), valid = std::vector<double>(length);
            for (size_t k = 0; k < length; ++k)
            {
                train[k] = (rng() % 16 == 0) ? 0.05 : 0.2 + 0.01 * static_cast<double>(rng() % 50);
                valid[k] = 0.01 * static_cast<double>(rng() % 100);
            }
            failures += run(train, valid, patience, has_valid, epsilon, false) ? 0 : 1;
        }
        std::printf("{\"histories\": %lld, \"observations\": %lld, \"mismatches\": %d}\n", g_histories, g_observations, failures);
        return failures == 0 ? 0 : 1;
    }
    std::fprintf(stderr, "usage: C11_replay exhaustive [max_length] | history <patience> <has_valid> <epsilon> <t0> <v0> ...\n");
    return 2;
}
