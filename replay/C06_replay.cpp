// C06 native replay: evaluates the property's own clauses on the REAL library at the points the verifier found.
//   C06_replay cb3II            chained_cb3II at x = (2, -3): f1 == f2 == 25 > f3, the returned vector must be a sub-gradient
//   C06_replay cb3I             chained_cb3I  at x = (2, -3): same tie inside the per-pair maximum
//   C06_replay quadgrad         quadratic constraint with a non-symmetric P: gradient vs central differences
//   C06_replay quadconvex       quadratic constraint whose P has eigenvalues with non-negative real part but is not PSD:
//                               nano::convex(constraint) is true and the convexity inequality fails
// exit 1: the violation is reproduced on the real code, 0: not reproduced
#include <cmath>
#include <cstdio>
#include <cstring>
#include <cstdlib>
#include <nano/function.h>
#include <nano/function/constraint.h>
#include <nano/loss.h>

using namespace nano;

static int subgradient_violation(const char* id)
{
    const auto function = function_t::all().get(id);
    if (!function)
    {
        std::printf("function %s not registered\n", id);
        return 0;
    }
    const auto f = function->make(2, 10);
    vector_t   x(2), z(2), g(2);
    x(0) = 2.0;
    x(1) = -3.0;
    z(0) = 2.0;
    z(1) = -2.0;
    const auto fx  = f->vgrad(x, g);
    const auto fz  = f->vgrad(z);
    const auto rhs = fx + g.dot(z - x);
    std::printf("%s n=%d convex=%d: f(x)=%.17g g(x)=(%.17g, %.17g) f(z)=%.17g f(x)+<g,z-x>=%.17g\n", id, static_cast<int>(f->size()),
                static_cast<int>(f->convex()), fx, g(0), g(1), fz, rhs);
    // central differences along e0 at x (f is differentiable along e0 there iff the one-sided slopes agree)
    const auto h = 1e-6;
    vector_t   xp = x, xn = x;
    xp(0) += h;
    xn(0) -= h;
    std::printf("  central difference d/dx0 = %.9g, returned g0 = %.9g\n", (f->vgrad(xp) - f->vgrad(xn)) / (2 * h), g(0));
    const auto violated = f->convex() && fz < rhs - 1e-9;
    std::printf("  f(z) >= f(x) + <g(x), z-x> : %s\n", violated ? "VIOLATED" : "holds");
    return violated ? 1 : 0;
}

static int quadratic(const bool convexity)
{
    using namespace nano::constraint;
    auto P = matrix_t{2, 2};
    auto q = vector_t{2};
    q.full(0.0);
    if (!convexity)
    {
        P(0, 0) = 0.0, P(0, 1) = -1.0, P(1, 0) = 0.0, P(1, 1) = 0.0;
    }
    else
    {
        P(0, 0) = -0.5, P(0, 1) = -1.0, P(1, 0) = 2.0, P(1, 1) = 1.0;
    }
    const auto constraint = constraint_t{quadratic_inequality_t{P, q, 0.0}};
    const auto function   = function_t::all().get("sphere")->make(2, 10);
    const auto accepted   = function->constrain(constraint_t{constraint});
    std::printf("quadratic constraint P=[[%g,%g],[%g,%g]] accepted by function_t::constrain: %d, nano::convex: %d\n", P(0, 0), P(0, 1), P(1, 0),
                P(1, 1), static_cast<int>(accepted), static_cast<int>(::nano::convex(constraint)));
    vector_t x(2), z(2), g(2);
    if (!convexity)
    {
        x(0) = 0.0, x(1) = -1.0;
        const auto fx = ::nano::vgrad(constraint, x, g);
        const auto h  = 1e-6;
        auto       worst = 0.0;
        for (int i = 0; i < 2; ++i)
        {
            vector_t xp = x, xn = x;
            xp(i) += h;
            xn(i) -= h;
            const auto cd = (::nano::vgrad(constraint, xp) - ::nano::vgrad(constraint, xn)) / (2 * h);
            std::printf("  value=%g  d/dx%d: central difference %.9g, returned gradient %.9g\n", fx, i, cd, g(i));
            worst = std::max(worst, std::fabs(cd - g(i)));
        }
        std::printf("  gradient == derivative : %s\n", worst > 1e-3 ? "VIOLATED" : "holds");
        return (accepted && worst > 1e-3) ? 1 : 0;
    }
    x(0) = -1.0, x(1) = 0.0;
    z(0) = 0.0, z(1) = 0.0;
    const auto fx  = ::nano::vgrad(constraint, x, g);
    const auto fz  = ::nano::vgrad(constraint, z);
    const auto rhs = fx + g.dot(z - x);
    const auto violated = ::nano::convex(constraint) && fz < rhs - 1e-9;
    std::printf("  f(x)=%g g(x)=(%g,%g) f(z)=%g f(x)+<g,z-x>=%g : convexity inequality %s\n", fx, g(0), g(1), fz, rhs, violated ? "VIOLATED" : "holds");
    return (accepted && violated) ? 1 : 0;
}

// fgrad <id> <dims> x0 .. : gradient against central differences;  fconvex <id> <dims> x0 .. z0 .. : the convexity inequality
static int function_at(const bool convexity, int argc, char* argv[])
{
    const auto proto = function_t::all().get(argv[2]);
    if (!proto)
    {
        std::printf("function %s not registered\n", argv[2]);
        return 0;
    }
    const auto dims = std::atoi(argv[3]);
    const auto f    = proto->make(dims, 10);
    const auto n    = static_cast<int>(f->size());
    if (argc < 4 + n * (convexity ? 2 : 1))
    {
        std::printf("not enough coordinates for a function of size %d\n", n);
        return 0;
    }
    vector_t x(n), z(n), g(n);
    for (int i = 0; i < n; ++i)
    {
        x(i) = std::atof(argv[4 + i]);
        z(i) = convexity ? std::atof(argv[4 + n + i]) : 0.0;
    }
    const auto fx = f->vgrad(x, g);
    if (convexity)
    {
        const auto fz  = f->vgrad(z);
        const auto rhs = fx + g.dot(z - x) + 0.5 * f->strong_convexity() * (z - x).squaredNorm();
        const auto bad = f->convex() && fz < rhs - 1e-9 * (1.0 + std::fabs(rhs));
        std::printf("%s n=%d convex=%d mu=%g: f(z)=%.12g f(x)+<g,z-x>+mu/2|z-x|^2=%.12g : %s\n", argv[2], n, static_cast<int>(f->convex()),
                    f->strong_convexity(), fz, rhs, bad ? "VIOLATED" : "holds");
        return bad ? 1 : 0;
    }
    auto worst = 0.0;
    for (int i = 0; i < n; ++i)
    {
        const auto h  = 1e-6 * std::max(1.0, std::fabs(x(i)));
        vector_t   xp = x, xn = x;
        xp(i) += h;
        xn(i) -= h;
        const auto cd = (f->vgrad(xp) - f->vgrad(xn)) / (2 * h);
        std::printf("  %s d/dx%d: central difference %.9g, returned %.9g\n", argv[2], i, cd, g(i));
        worst = std::max(worst, std::fabs(cd - g(i)) / (1.0 + std::fabs(cd)));
    }
    std::printf("  value with gradient %.17g, without %.17g\n", fx, f->vgrad(x));
    return (worst > 1e-4 || fx != f->vgrad(x)) ? 1 : 0;
}

// loss <id> <target> <output> <z>: one sample with one output value: gradient against central differences, convexity against z, sign of the value
static int loss_at(char* argv[])
{
    const auto loss = loss_t::all().get(argv[2]);
    if (!loss)
    {
        std::printf("loss %s not registered\n", argv[2]);
        return 0;
    }
    const auto t = std::atof(argv[3]), o = std::atof(argv[4]), z = std::atof(argv[5]);
    tensor4d_t targets(1, 1, 1, 1), outputs(1, 1, 1, 1), vgrads(1, 1, 1, 1);
    tensor1d_t values(1);
    const auto value = [&](const double out)
    {
        targets(0) = t;
        outputs(0) = out;
        loss->value(targets, outputs, values);
        return values(0);
    };
    targets(0) = t;
    outputs(0) = o;
    loss->vgrad(targets, outputs, vgrads);
    const auto g  = vgrads(0);
    const auto h  = 1e-6;
    const auto cd = (value(o + h) - value(o - h)) / (2 * h);
    const auto v  = value(o);
    const auto vz = value(z);
    const auto bad_grad   = std::fabs(cd - g) > 1e-4 * (1.0 + std::fabs(cd));
    const auto bad_convex = loss->convex() && vz < v + g * (z - o) - 1e-9;
    std::printf("%s target=%g output=%g: value=%.12g gradient=%.9g central difference=%.9g | convex=%d value(z=%g)=%.12g >= %.12g | %s %s %s\n", argv[2], t, o, v, g,
                cd, static_cast<int>(loss->convex()), z, vz, v + g * (z - o), bad_grad ? "GRADIENT-MISMATCH" : "", bad_convex ? "CONVEXITY-VIOLATED" : "",
                v < 0 ? "NEGATIVE-VALUE" : "");
    return (bad_grad || bad_convex || v < 0) ? 1 : 0;
}

int main(int argc, char* argv[])
{
    const char* what = argc > 1 ? argv[1] : "";
    if (std::strcmp(what, "fgrad") == 0 && argc > 4)
    {
        return function_at(false, argc, argv);
    }
    if (std::strcmp(what, "fconvex") == 0 && argc > 4)
    {
        return function_at(true, argc, argv);
    }
    if (std::strcmp(what, "loss") == 0 && argc > 5)
    {
        return loss_at(argv);
    }
    if (std::strcmp(what, "cb3II") == 0)
    {
        return subgradient_violation("chained_cb3II");
    }
    if (std::strcmp(what, "cb3I") == 0)
    {
        return subgradient_violation("chained_cb3I");
    }
    if (std::strcmp(what, "quadgrad") == 0)
    {
        return quadratic(false);
    }
    if (std::strcmp(what, "quadconvex") == 0)
    {
        return quadratic(true);
    }
    std::printf("usage: C06_replay cb3II|cb3I|quadgrad|quadconvex\n");
    return 0;
}
