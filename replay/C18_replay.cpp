// C18 native replay (functional half of schedule independence, select_iterator_t): on the REAL library of the working
// tree, run select_iterator_t::loop(samples, op) for the four operator kinds on the same dataset with dataset pools of
// 1, 2, 3 and 4 threads and record what the operator is handed.  The property: the multiset of (feature, values) must be
// the features of that kind, each exactly once, whatever the pool size; tnum < pool size.
// exit 1: a pool size for which a feature is handed out twice / never, or the values are not those of that feature.
#include <algorithm>
#include <cstdio>
#include <mutex>
#include <nano/dataset.h>
#include <nano/dataset/iterator.h>
#include <nano/datasource/linear.h>
#include <nano/generator/elemwise_identity.h>

using namespace nano;

namespace
{
template <class tvalues>
double first_value(const tvalues& values)
{
    return values.size() > 0 ? static_cast<double>(values.data()[0]) : 0.0;
}

template <class tcallback_values, class tpredicate, class tbuffer>
int run_kind(const char* kind, const dataset_t& dataset, const indices_t& samples, const tpredicate& is_kind, tbuffer buffer)
{
    std::vector<tensor_size_t> expected;
    for (tensor_size_t f = 0; f < dataset.features(); ++f)
    {
        if (is_kind(dataset.feature(f)))
        {
            expected.push_back(f);
        }
    }
    std::mutex                                 mutex;
    std::vector<tensor_size_t>                 seen;
    std::vector<std::pair<tensor_size_t, double>> firsts;
    size_t                                     bad_tnum = 0;
    const auto iterator = select_iterator_t{dataset};
    iterator.loop(samples,
                  [&](tensor_size_t feature, size_t tnum, tcallback_values values)
                  {
                      const std::scoped_lock lock(mutex);
                      seen.push_back(feature);
                      firsts.emplace_back(feature, first_value(values));
                      bad_tnum += tnum < dataset.concurrency() ? 0U : 1U;
                  });
    std::sort(seen.begin(), seen.end());
    int failures = 0;
    if (seen != expected)
    {
        std::printf("pool=%zu kind=%s: operator saw features [", dataset.concurrency(), kind);
        for (const auto f : seen) std::printf(" %d", static_cast<int>(f));
        std::printf(" ] but the %s features are [", kind);
        for (const auto f : expected) std::printf(" %d", static_cast<int>(f));
        std::printf(" ]\n");
        ++failures;
    }
    for (const auto& [feature, value] : firsts)
    {
        const auto ref = first_value(dataset.select(samples, feature, buffer));
        if (!(ref == value) && !(ref != ref && value != value))
        {
            std::printf("pool=%zu kind=%s: values handed out for feature %d are not those of that feature\n",
                        dataset.concurrency(), kind, static_cast<int>(feature));
            ++failures;
        }
    }
    if (bad_tnum != 0)
    {
        std::printf("pool=%zu kind=%s: worker id out of range\n", dataset.concurrency(), kind);
        ++failures;
    }
    return failures;
}
} // namespace

int main()
{
    auto datasource                                      = linear_datasource_t{};
    datasource.parameter("datasource::linear::samples")  = 50;
    datasource.parameter("datasource::linear::targets")  = 1;
    datasource.parameter("datasource::linear::features") = 32;
    datasource.parameter("datasource::linear::noise")    = 0.0;
    datasource.load();

    int failures = 0;
    for (const size_t threads : {1U, 2U, 3U, 4U})
    {
        auto dataset = dataset_t{datasource, threads};
        dataset.add<sclass_identity_generator_t>();
        dataset.add<mclass_identity_generator_t>();
        dataset.add<scalar_identity_generator_t>();
        dataset.add<struct_identity_generator_t>();
        const auto samples = arange(0, dataset.samples());

        failures += run_kind<sclass_cmap_t>("sclass", dataset, samples, [](const feature_t& f) { return f.is_sclass(); }, sclass_mem_t{});
        failures += run_kind<mclass_cmap_t>("mclass", dataset, samples, [](const feature_t& f) { return f.is_mclass(); }, mclass_mem_t{});
        failures += run_kind<scalar_cmap_t>("scalar", dataset, samples, [](const feature_t& f) { return f.is_scalar(); }, scalar_mem_t{});
        failures += run_kind<struct_cmap_t>("struct", dataset, samples, [](const feature_t& f) { return f.is_struct(); }, struct_mem_t{});
    }
    std::printf("%s\n", failures == 0 ? "REPLAY: no difference between pool sizes" : "REPLAY: FAILED");
    return failures == 0 ? 0 : 1;
}
