// native replay for C05 (solver protocol): runs the real augmented-Lagrangian solver on box-constrained quadratics whose
// optimum lies on the boundary, for several scales and precisions (including epsilon below the solver's internal
// tolerances), and checks the property's own postcondition on the returned state:
//   status == converged  =>  every box violation max(0, lo - x_i), max(0, x_i - hi) is <= epsilon,
//                            and the stored constraint values equal those recomputed at the returned point.
#include <nano/function.h>
#include <nano/function/constraint.h>
#include <nano/solver.h>
#include <nano/solver/augmented.h>
#include <cmath>
#include <cstdio>
using namespace nano;
struct shifted_t final : public function_t
{
    shifted_t(vector_t c) : function_t("shifted", c.size()), m_c(std::move(c)) { convex(convexity::yes); smooth(smoothness::yes); }
    rfunction_t clone() const override { return std::make_unique<shifted_t>(*this); }
    scalar_t    do_vgrad(vector_cmap_t x, vector_map_t gx) const override
    {
        if (gx.size() == x.size()) { gx = x - m_c; }
        return 0.5 * (x - m_c).dot(x - m_c);
    }
    vector_t m_c;
};
int main()
{
    int bad = 0, runs = 0, conv = 0;
    for (const tensor_size_t n : {2, 3, 5})
        for (const double scale : {1.0, 7.0, 40.0})
            for (const double epsilon : {1e-6, 1e-9, 1e-11})
                for (int k = 0; k < 4; ++k)
                {
                    vector_t c(n);
                    for (tensor_size_t i = 0; i < n; ++i) c(i) = scale * (((i + k) % 3 == 0) ? 3.7 : (((i + k) % 3 == 1) ? -2.3 : 1.4));
                    shifted_t f(c);
                    const double lo = 1.0 * scale, hi = 2.0 * scale;
                    f.constrain(lo, hi);
                    auto solver_ = solver_augmented_lagrangian_t{};
                    auto* solver = &solver_;
                    solver->parameter("solver::epsilon") = epsilon;
                    vector_t x0(n);
                    for (tensor_size_t i = 0; i < n; ++i) x0(i) = 1.5 * scale + 0.1 * static_cast<double>(i);
                    const auto state = solver->minimize(f, x0, make_null_logger());
                    ++runs;
                    if (state.status() != solver_status::converged) continue;
                    ++conv;
                    double viol = 0.0;
                    for (tensor_size_t i = 0; i < n; ++i) viol = std::max(viol, std::max(lo - state.x()(i), state.x()(i) - hi));
                    double stored = 0.0;
                    for (tensor_size_t i = 0; i < state.cineq().size(); ++i) stored = std::max(stored, state.cineq()(i));
                    const bool v1 = viol > epsilon, v2 = std::fabs(std::max(stored, 0.0) - std::max(viol, 0.0)) > 1e-12 * (1.0 + scale);
                    if (v1 || v2)
                    {
                        ++bad;
                        if (bad <= 8) std::printf("{\"n\": %d, \"scale\": %g, \"epsilon\": %g, \"violation\": %.6g, \"stored_max_cineq\": %.6g}\n", (int)n, scale, epsilon, viol, stored);
                    }
                }
    std::printf("{\"runs\": %d, \"converged\": %d, \"violations\": %d}\n", runs, conv, bad);
    return bad ? 1 : 0;
}
