// native replay for C07 (advertised conditions of More-Thuente / CG_DESCENT): runs the real line searches on the 1-D convex
// quadratic f(x) = x^2 from concrete (x0, d, t0, max_iterations) and recomputes the property's own postcondition from the
// returned objects:   success  =>  the accepted point satisfies the conditions the method advertises
//   More-Thuente: Armijo + strong Wolfe;   CG_DESCENT: (Armijo + Wolfe) or (approximate Armijo + approximate Wolfe).
// exit 1 = a success that violates its advertised conditions was observed.
#include <nano/function.h>
#include <nano/lsearchk.h>
#include <cmath>
#include <cstdio>
#include <string>
using namespace nano;
struct square_t final : public function_t
{
    square_t() : function_t("square", 1) { convex(convexity::yes); smooth(smoothness::yes); }
    rfunction_t clone() const override { return std::make_unique<square_t>(*this); }
    scalar_t    do_vgrad(vector_cmap_t x, vector_map_t gx) const override
    {
        if (gx.size() == x.size()) { gx(0) = 2.0 * x(0); }
        return x(0) * x(0);
    }
};
struct scenario_t { const char* id; double x0, d, t0; int max_iterations; };
int main()
{
    const scenario_t scenarios[] = {
        // More-Thuente: the minimiser along d lies below stpmin -> `stp <= stpmin && f > ftest` returns {true, stpmin}
        {"morethuente", 1.0, -1e16, 1.0, 128},
        {"morethuente", 1e-3, -1e13, 1.0, 128},
        {"morethuente", 5e-21, -1.0, 1.0, 128},
        // CG_DESCENT: bracket() runs out of budget -> done() returns true on `b.g < 0`, success = state.valid()
        {"cgdescent", 1.0, -1.0, 0.1, 1},
        {"cgdescent", 1.0, -1.0, 0.1, 2},
        {"cgdescent", 1.0, -1.0, 0.001, 4},
    };
    int  bad = 0;
    bool first = true;
    std::printf("[");
    for (const auto& s : scenarios)
    {
        auto ls = lsearchk_t::all().get(s.id);
        ls->parameter("lsearchk::max_iterations") = s.max_iterations;
        const auto [c1, c2] = ls->parameter("lsearchk::tolerance").value_pair<scalar_t>();
        square_t f;
        vector_t x0(1); x0(0) = s.x0;
        vector_t d(1);  d(0) = s.d;
        auto       state  = solver_state_t{f, x0};
        const auto state0 = state;
        const auto [ok, t] = ls->get(state, d, s.t0, make_null_logger());
        const auto f0 = state0.fx(), g0 = state0.dg(d), ft = state.fx(), gt = state.dg(d);
        const bool armijo = ft <= f0 + t * c1 * g0;
        const bool wolfe  = gt >= c2 * g0;
        const bool swolfe = std::fabs(gt) <= c2 * std::fabs(g0);
        const auto epsk   = (std::string(s.id) == "cgdescent") ? ls->parameter("lsearchk::cgdescent::epsilon").value<scalar_t>() * std::fabs(f0) : 0.0;
        const bool approx = (ft <= f0 + epsk) && ((2.0 * c1 - 1.0) * g0 >= gt) && wolfe;
        const bool advertised = (std::string(s.id) == "morethuente") ? (armijo && swolfe) : ((armijo && wolfe) || approx);
        const bool viol = ok && !advertised;
        bad += viol ? 1 : 0;
        std::printf("%s{\"lsearchk\": \"%s\", \"x0\": %g, \"d\": %g, \"t0\": %g, \"max_iterations\": %d, \"ok\": %d, \"t\": %.17g, \"f0\": %.17g, \"ft\": %.17g, "
                    "\"g0d\": %.17g, \"gtd\": %.17g, \"armijo\": %d, \"wolfe\": %d, \"strong_wolfe\": %d, \"approx_wolfe\": %d, \"violates\": %d}",
                    first ? "" : ", ", s.id, s.x0, s.d, s.t0, s.max_iterations, ok ? 1 : 0, t, f0, ft, g0, gt, armijo, wolfe, swolfe, approx, viol ? 1 : 0);
        first = false;
    }
    std::printf("]\n");
    return bad ? 1 : 0;
}
