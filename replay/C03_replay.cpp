#include <nano/solver.h>
#include <nano/function.h>
#include <iostream>
using namespace nano;
int main(int argc, char** argv) {
    const auto msize = argc > 1 ? std::atoi(argv[1]) : 2;
    auto config = function_t::config_t{}; config.m_min_dims = 4; config.m_max_dims = 4; config.m_convexity = convexity::yes; config.m_smoothness = smoothness::no;
    for (const auto& function : function_t::make(config)) {
        for (const auto& id : {"rqb", "fpba1", "fpba2"}) {
            auto solver = solver_t::all().get(id);
            solver->parameter(scat("solver::", id, "::bundle::max_size")) = msize;
            solver->parameter("solver::max_evals") = 300;
            vector_t x0 = make_random_vector<scalar_t>(function->size(), -1.0, +1.0, seed_t{42});
            const auto state = solver->minimize(*function, x0, make_null_logger());
            std::cout << function->name() << " " << id << ": status=" << state.status() << " fx=" << state.fx() << " calls=" << state.fcalls() << "\n";
        }
    }
}
