// native replay for C07: runs the real line searches on a scripted 1-D function that drives lsearchk_t::get down the
// verifier's path "every trial step of the first adjustment loop is invalid" (value 0, slope 1 at x0; -inf with zero
// gradient elsewhere; direction -1; t0 = 1) and checks the property's own postcondition on the real objects:
//   success  =>  the state is valid and is the evaluation at x0 + t*d for the returned t.
#include <nano/function.h>
#include <nano/lsearchk.h>
#include <cmath>
#include <cstdio>
#include <string>
using namespace nano;
struct hole_t final : public function_t
{
    hole_t() : function_t("hole", 1) { convex(convexity::no); smooth(smoothness::yes); }
    rfunction_t clone() const override { return std::make_unique<hole_t>(*this); }
    scalar_t    do_vgrad(vector_cmap_t x, vector_map_t gx) const override
    {
        const bool at0 = (x(0) == 0.0);
        if (gx.size() == x.size()) { gx(0) = at0 ? 1.0 : 0.0; }
        return at0 ? 0.0 : -std::numeric_limits<scalar_t>::infinity();
    }
};
// second scenario: the slope g.d along the direction is NaN (gradient NaN at x0, finite value): not a descent direction,
// so every line search must refuse it (ok = false) and leave the state untouched (same point, no further evaluation).
struct nanslope_t final : public function_t
{
    nanslope_t() : function_t("nanslope", 1) { convex(convexity::no); smooth(smoothness::yes); }
    rfunction_t clone() const override { return std::make_unique<nanslope_t>(*this); }
    scalar_t    do_vgrad(vector_cmap_t x, vector_map_t gx) const override
    {
        if (gx.size() == x.size()) { gx(0) = (x(0) == 0.0) ? std::numeric_limits<scalar_t>::quiet_NaN() : 2.0 * x(0); }
        return x(0) * x(0);
    }
};
// third scenario: a non-finite initial step t0 (NaN, +inf, -inf) on the convex quadratic f(x) = x^2 along d = -gradient:
// lsearchk_t::get replaces / clamps it, so every line search must still succeed with a finite positive step whose state is
// the evaluation at x0 + t*d (std::clamp alone lets a NaN through).
struct square_t final : public function_t
{
    square_t() : function_t("square", 1) { convex(convexity::yes); smooth(smoothness::yes); }
    rfunction_t clone() const override { return std::make_unique<square_t>(*this); }
    scalar_t    do_vgrad(vector_cmap_t x, vector_map_t gx) const override
    {
        if (gx.size() == x.size()) { gx(0) = 2.0 * x(0); }
        return x(0) * x(0);
    }
};
// fourth scenario (only with the argument "ieee": counterexamples of the target lsearchk_get_ieee): a function that is finite
// only at x0 (value 0, slope 1; +inf elsewhere).  Every positive trial step is invalid, the shrinking loop `t *= 0.3` underflows
// to t = 0 after ~620 iterations, the evaluation at x0 + 0*d is valid again and do_get is entered with the step 0:
// success must still mean a strictly positive step.
struct spike_t final : public function_t
{
    spike_t() : function_t("spike", 1) { convex(convexity::no); smooth(smoothness::yes); }
    rfunction_t clone() const override { return std::make_unique<spike_t>(*this); }
    scalar_t    do_vgrad(vector_cmap_t x, vector_map_t gx) const override
    {
        const bool at0 = (x(0) == 0.0);
        if (gx.size() == x.size()) { gx(0) = at0 ? 1.0 : 0.0; }
        return at0 ? 0.0 : std::numeric_limits<scalar_t>::infinity();
    }
};
int main(int argc, char** argv)
{
    int  bad = 0;
    bool first_entry = true;
    std::printf("[");
    if (argc > 1 && std::string(argv[1]) == "ieee")
    {
        for (const auto& id : {"backtrack", "lemarechal", "fletcher", "morethuente", "cgdescent"})
        {
            for (const int iters : {700, 2000})
            {
                auto ls = lsearchk_t::all().get(id);
                ls->parameter("lsearchk::max_iterations") = iters;
                spike_t  f;
                vector_t x0(1);
                x0(0)      = 0.0;
                auto     state = solver_state_t{f, x0};
                vector_t d(1);
                d(0)               = -1.0;
                const auto [ok, t] = ls->get(state, d, 1.0, make_null_logger());
                const bool viol    = ok && !(std::isfinite(t) && t > 0.0);
                bad += viol ? 1 : 0;
                std::printf("%s{\"lsearchk\": \"%s\", \"scenario\": \"finite only at x0, step underflows to 0\", \"max_iterations\": %d, \"ok\": %d, \"t\": \"%g\", \"state_x\": \"%g\", \"violates\": %d}",
                            first_entry ? "" : ", ", id, iters, ok ? 1 : 0, t, state.x()(0), viol ? 1 : 0);
                first_entry = false;
            }
        }
    }
    for (const auto& id : {"backtrack", "lemarechal", "fletcher", "morethuente", "cgdescent"})
    {
        for (const double t0 : {std::numeric_limits<double>::quiet_NaN(), std::numeric_limits<double>::infinity(), -std::numeric_limits<double>::infinity()})
        {
            auto     ls = lsearchk_t::all().get(id);
            square_t f;
            vector_t x0(1);
            x0(0)      = 1.0;
            auto     state = solver_state_t{f, x0};
            vector_t d(1);
            d(0)               = -2.0;
            const auto [ok, t] = ls->get(state, d, t0, make_null_logger());
            const bool at      = std::isfinite(t) && std::fabs(state.x()(0) - (1.0 + t * -2.0)) <= 1e-12;
            const bool viol    = !ok || !std::isfinite(t) || !(t > 0.0) || !state.valid() || !at;
            bad += viol ? 1 : 0;
            std::printf("%s{\"lsearchk\": \"%s\", \"scenario\": \"non-finite t0 on x^2\", \"t0\": \"%g\", \"ok\": %d, \"t\": \"%g\", \"state_x\": \"%g\", \"valid\": %d, \"violates\": %d}",
                        first_entry ? "" : ", ", id, t0, ok ? 1 : 0, t, state.x()(0), state.valid() ? 1 : 0, viol ? 1 : 0);
            first_entry = false;
        }
    }
    for (const auto& id : {"backtrack", "lemarechal", "fletcher", "morethuente", "cgdescent"})
    {
        auto        ls = lsearchk_t::all().get(id);
        nanslope_t  f;
        vector_t    x0(1);
        x0(0)      = 0.0;
        auto        state  = solver_state_t{f, x0};
        const auto  calls0 = f.fcalls() + f.gcalls();
        vector_t    d(1);
        d(0)               = -1.0;
        const auto [ok, t] = ls->get(state, d, 1.0, make_null_logger());
        const bool viol    = ok || state.x()(0) != 0.0 || (f.fcalls() + f.gcalls()) != calls0;
        bad += viol ? 1 : 0;
        std::printf("%s{\"lsearchk\": \"%s\", \"scenario\": \"NaN slope\", \"ok\": %d, \"t\": %g, \"state_x\": %g, \"evaluations_after_entry\": %d, \"violates\": %d}",
                    first_entry ? "" : ", ", id, ok ? 1 : 0, t, state.x()(0), static_cast<int>(f.fcalls() + f.gcalls() - calls0), viol ? 1 : 0);
        first_entry = false;
    }
    for (const auto& id : {"backtrack", "lemarechal", "fletcher", "morethuente", "cgdescent"})
    {
        for (int iters : {1, 2, 3, 128})
        {
            auto ls = lsearchk_t::all().get(id);
            ls->parameter("lsearchk::max_iterations") = iters;
            hole_t   f;
            vector_t x0(1);
            x0(0)      = 0.0;
            auto     state = solver_state_t{f, x0};
            vector_t d(1);
            d(0)               = -1.0;
            const auto [ok, t] = ls->get(state, d, 1.0, make_null_logger());
            const auto off     = std::fabs(state.x()(0) - (0.0 + t * -1.0));
            const bool viol    = ok && (!state.valid() || !(off <= 1e-12));
            bad += viol ? 1 : 0;
            const bool nv_first = first_entry;
            first_entry = false;
            std::printf("%s{\"lsearchk\": \"%s\", \"max_iterations\": %d, \"ok\": %d, \"t\": %g, \"state_x\": %g, \"fx\": %g, \"valid\": %d, \"violates\": %d}",
                        nv_first ? "" : ", ", id, iters, ok ? 1 : 0, t, state.x()(0), state.fx(),
                        state.valid() ? 1 : 0, viol ? 1 : 0);
        }
    }
    std::printf("]\n");
    return bad ? 1 : 0;
}
