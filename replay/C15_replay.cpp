// native replay for C15: feeds a crafted tensor stream to the REAL nano::read and checks the property's own clauses.
// usage: C15_replay tensor <f64|i64> <rank> <d0> ... <d_rank-1>
//   builds  version=0 | rank | dims (int32) | sizeof(scalar) | hash(payload) | payload   where the payload has
//   n = nano::size(dims) scalars (1, 2, 3, ...) when 0 < n <= 2^20, and is empty otherwise (hash of nothing = 0).
//   The stream buffer logs every count that std::istream::read hands down (streambuf::xsgetn), so "the payload read was
//   given a negative / bogus byte count" is observed on the real code, not inferred.
// usage: C15_replay corrupt_dim   (writes an empty (0,3) tensor with the real writer, alters one header byte, reads it back)
// usage: C15_replay big_dim <n>   (writes a rank-1 tensor of n one-byte scalars with the real writer, inspects the header)
// usage: C15_replay string_reuse  (empty / short string read into a destination that already holds a value)
// usage: C15_replay payload_bits  (every single-bit corruption of a float64 tensor payload must be rejected)
// exit 1: the property is violated (accepted with invalid dims, or a negative count reached istream::read); 0 otherwise
#include <nano/tensor/stream.h>
#include <cstdio>
#include <cstdlib>
#include <cstring>
#include <algorithm>
#include <ostream>
#include <sstream>
#include <streambuf>
#include <vector>
using namespace nano;

struct logbuf_t final : std::streambuf
{
    explicit logbuf_t(std::string data) : m_data(std::move(data)) { setg(m_data.data(), m_data.data(), m_data.data() + m_data.size()); }
    std::streamsize xsgetn(char* s, std::streamsize n) override
    {
        m_counts.push_back(static_cast<long long>(n));
        return std::streambuf::xsgetn(s, n);
    }
    std::string            m_data;
    std::vector<long long> m_counts;
};

template <class T> void put(std::string& s, T v) { s.append(reinterpret_cast<const char*>(&v), sizeof(T)); }

template <class tscalar, size_t trank> int run(const std::vector<long long>& dims)
{
    tensor_dims_t<trank> tdims;
    __int128             exact = 1;
    bool                 nonneg = true;
    for (size_t k = 0; k < trank; ++k) { tdims[k] = dims[k]; exact *= dims[k]; nonneg = nonneg && dims[k] >= 0; }
    const auto n = ::nano::size(tdims); // what the real code computes (wraps on overflow)
    std::vector<tscalar> payload;
    if (n > 0 && n <= (1 << 20)) { payload.resize(static_cast<size_t>(n)); for (size_t i = 0; i < payload.size(); ++i) payload[i] = static_cast<tscalar>(i + 1); }
    std::string s;
    put<uint32_t>(s, detail::hash_version());
    put<uint32_t>(s, static_cast<uint32_t>(trank));
    for (size_t k = 0; k < trank; ++k) put<int32_t>(s, static_cast<int32_t>(dims[k]));
    put<uint32_t>(s, static_cast<uint32_t>(sizeof(tscalar)));
    put<uint64_t>(s, detail::hash(payload.data(), static_cast<tensor_size_t>(payload.size())));
    for (const auto v : payload) put<tscalar>(s, v);

    logbuf_t     buf(s);
    std::istream is(&buf);
    tensor_mem_t<tscalar, trank> tensor;
    bool accepted = false, thrown = false;
    try { accepted = static_cast<bool>(::nano::read(is, tensor)); }
    catch (const std::exception&) { thrown = true; }

    bool negative_count = false;
    std::printf("{\"dims\": [");
    for (size_t k = 0; k < trank; ++k) std::printf("%s%lld", k ? ", " : "", dims[k]);
    std::printf("], \"accepted\": %s, \"thrown\": %s, \"tensor_size\": %lld, \"exact_product_fits\": %s, \"istream_read_counts\": [",
                accepted ? "true" : "false", thrown ? "true" : "false", static_cast<long long>(thrown ? 0 : tensor.size()),
                (nonneg && exact == static_cast<__int128>(n)) ? "true" : "false");
    for (size_t i = 0; i < buf.m_counts.size(); ++i) { std::printf("%s%lld", i ? ", " : "", buf.m_counts[i]); negative_count = negative_count || buf.m_counts[i] < 0; }
    const bool bad_accept = accepted && !(nonneg && exact == static_cast<__int128>(tensor.size()));
    std::printf("], \"accepted_with_invalid_dims\": %s, \"negative_count_reached_istream_read\": %s}\n", bad_accept ? "true" : "false",
                negative_count ? "true" : "false");
    return (bad_accept || negative_count) ? 1 : 0;
}

int corrupt_dim()
{
    tensor_mem_t<double, 2> w(0, 3);
    std::ostringstream os;
    ::nano::write(os, w);
    std::string s = os.str();
    s[12] = 4; // low byte of dims[1]: 3 -> 4 (single-byte header corruption)
    std::istringstream is(s);
    tensor_mem_t<double, 2> r;
    const bool accepted = static_cast<bool>(::nano::read(is, r));
    std::printf("{\"written_dims\": [0, 3], \"read_dims\": [%lld, %lld], \"accepted\": %s}\n", static_cast<long long>(r.dims()[0]),
                static_cast<long long>(r.dims()[1]), accepted ? "true" : "false");
    return (accepted && r.dims() != w.dims()) ? 1 : 0;
}

// a live rank-1 tensor of `n` one-byte scalars (a lazily zero-mapped block) is written with the REAL writer into a sink that
// keeps the header only; the property: the dimension stored in the header is the tensor's dimension
struct headbuf_t final : std::streambuf
{
    std::streamsize xsputn(const char* s, std::streamsize n) override
    {
        if (m_head.size() < 64) m_head.append(s, static_cast<size_t>(std::min<std::streamsize>(n, static_cast<std::streamsize>(64 - m_head.size()))));
        m_total += n;
        return n;
    }
    int         overflow(int c) override { ++m_total; return c; }
    std::string m_head;
    long long   m_total{0};
};
int big_dim(const long long n)
{
    auto* p = static_cast<int8_t*>(std::calloc(static_cast<size_t>(n), 1));
    if (p == nullptr) { std::printf("{\"error\": \"cannot map %lld bytes\"}\n", n); return 2; }
    const auto   t = map_tensor(static_cast<const int8_t*>(p), static_cast<tensor_size_t>(n));
    headbuf_t    buf;
    std::ostream os(&buf);
    const bool   ok = static_cast<bool>(::nano::write(os, t));
    int32_t      d0 = 0;
    if (buf.m_head.size() >= 12) std::memcpy(&d0, buf.m_head.data() + 8, 4);
    std::printf("{\"tensor_dim\": %lld, \"write_reported_success\": %s, \"bytes_written\": %lld, \"dim_stored_in_header\": %d}\n",
                static_cast<long long>(t.size()), ok ? "true" : "false", buf.m_total, d0);
    std::free(p);
    return (ok && static_cast<long long>(d0) != static_cast<long long>(t.size())) ? 1 : 0;
}

// read(string) / read(vector<string>) into a RE-USED destination: the stored (possibly empty) value must replace the old one
int string_reuse()
{
    int failures = 0;
    for (const std::string stored : {std::string{}, std::string{"ab"}})
    {
        std::ostringstream os;
        ::nano::write(os, stored);
        std::istringstream is(os.str());
        std::string        dest = "previous";
        const bool         ok   = static_cast<bool>(::nano::read(is, dest));
        const bool         bad  = ok && dest != stored;
        std::printf("{\"stored\": \"%s\", \"destination_before\": \"previous\", \"accepted\": %s, \"read_back\": \"%s\", \"violation\": %s}\n",
                    stored.c_str(), ok ? "true" : "false", dest.c_str(), bad ? "true" : "false");
        failures += bad ? 1 : 0;
    }
    return failures ? 1 : 0;
}

// every single-bit corruption of the payload of a float64 tensor must be rejected (hash(content) covers all 8 bytes)
int payload_bits()
{
    tensor_mem_t<double, 1> w(3);
    w(0) = 0.142726; w(1) = -1.5; w(2) = 3.25e10;
    std::ostringstream os;
    ::nano::write(os, w);
    const std::string blob   = os.str();
    const size_t      header = 20 + 4;
    int               accepted = 0, first_byte = -1, first_bit = -1;
    for (size_t byte = header; byte < blob.size(); ++byte)
    {
        for (int bit = 0; bit < 8; ++bit)
        {
            std::string c = blob;
            c[byte]       = static_cast<char>(c[byte] ^ (1 << bit));
            std::istringstream is(c);
            tensor_mem_t<double, 1> r;
            bool ok = false;
            try { ok = static_cast<bool>(::nano::read(is, r)); } catch (const std::exception&) {}
            if (ok) { if (accepted == 0) { first_byte = static_cast<int>(byte - header); first_bit = bit; } ++accepted; }
        }
    }
    std::printf("{\"payload_bytes\": %zu, \"single_bit_corruptions_accepted\": %d, \"first_accepted\": {\"payload_byte\": %d, \"bit\": %d}}\n",
                blob.size() - header, accepted, first_byte, first_bit);
    return accepted ? 1 : 0;
}

int main(int argc, char** argv)
{
    if (argc == 2 && std::strcmp(argv[1], "string_reuse") == 0) return string_reuse();
    if (argc == 2 && std::strcmp(argv[1], "payload_bits") == 0) return payload_bits();
    if (argc == 3 && std::strcmp(argv[1], "big_dim") == 0) return big_dim(std::atoll(argv[2]));
    if (argc >= 2 && std::strcmp(argv[1], "corrupt_dim") == 0) return corrupt_dim();
    if (argc < 5 || std::strcmp(argv[1], "tensor") != 0) return 2;
    const std::string scalar = argv[2];
    const int         rank   = std::atoi(argv[3]);
    if (argc != 4 + rank) return 2;
    std::vector<long long> dims;
    for (int k = 0; k < rank; ++k) dims.push_back(std::atoll(argv[4 + k]));
    if (scalar == "f64" && rank == 1) return run<double, 1>(dims);
    if (scalar == "f64" && rank == 2) return run<double, 2>(dims);
    if (scalar == "f64" && rank == 4) return run<double, 4>(dims);
    if (scalar == "i64" && rank == 1) return run<int64_t, 1>(dims);
    return 2;
}
