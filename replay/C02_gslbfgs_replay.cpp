// C02 replay (gradient sampling with LBFGS preconditioning): the preconditioner keeps W, H positive definite only if every curvature
// pair it admits has d.y > 0; the line search of gsample::lsearch_t::step accepts a trial with f < f(x) - t * beta * g.H.g, which lies
// above f(x) once H is indefinite.  Observable: gs-lbfgs / ags-lbfgs return a non-failed state with f(x) > f(x0) on a non-convex
// function sampled in a region of negative curvature (in-domain lsearch_beta close to 1, tiny budget).  The solvers seed from
// std::random_device: each configuration is repeated.   exit 1 = reproduced, exit 0 = no run above the starting value
#include <nano/function.h>
#include <nano/solver.h>
#include <iostream>
using namespace nano;
int main(int argc, char** argv)
{
    struct config_t { const char* solver; const char* function; tensor_size_t dims; scalar_t x0; scalar_t beta; int max_evals; };
    const auto configs = {config_t{"gs-lbfgs", "styblinski-tang", 1, 1.0, 0.90, 12}, config_t{"ags-lbfgs", "styblinski-tang", 1, 1.0, 0.90, 12},
                          config_t{"gs-lbfgs", "styblinski-tang", 2, 1.0, 0.99, 16}, config_t{"gs-lbfgs", "qing", 1, 0.01, 0.90, 12}};
    const auto trials = argc > 1 ? std::atoi(argv[1]) : 300;
    int bad = 0;
    for (const auto& c : configs)
    {
        const auto function = function_t::all().get(c.function)->make(c.dims, 10);
        const auto x0       = make_full_vector<scalar_t>(c.dims, c.x0);
        const auto f0       = function->vgrad(x0);
        int        hits     = 0;
        scalar_t   worst    = f0;
        for (int trial = 0; trial < trials; ++trial)
        {
            auto solver                            = solver_t::all().get(c.solver);
            solver->parameter("solver::max_evals") = c.max_evals;
            solver->parameter(scat("solver::", c.solver, "::lsearch_beta")) = c.beta;
            const auto state = solver->minimize(*function, x0, make_null_logger());
            if (state.status() != solver_status::failed && !(state.fx() <= f0))
            {
                ++hits;
                worst = std::max(worst, state.fx());
            }
        }
        std::cout << c.solver << " " << function->name() << " x0=" << c.x0 << " lsearch_beta=" << c.beta << " max_evals=" << c.max_evals << ": f(x0)=" << f0
                  << ", " << hits << "/" << trials << " runs returned f(x) > f(x0)" << (hits ? " (worst " : "") << (hits ? std::to_string(worst) + ")" : "") << "\n";
        bad += hits;
    }
    return bad ? 1 : 0;
}
