// native replay for C19 (check-then-assign): builds a REAL parameter_t with the counterexample's domain, performs the
// counterexample's assignment through the public API and compares with the reference model of the property:
//   c = (kind of the parameter) x;  accepted <=> c in the declared domain;  accepted => read back == c;
//   rejected => throws and the previous value is read back.  An assignment whose conversion double -> int64 is undefined
//   (NaN, inf, |x| >= 2^63) is reported as such (the driver is built with -fsanitize=float-cast-overflow, so the real
//   code prints the runtime error itself).
// usage: C19_replay <ir|fr|ip|fp> <i64|f64|i32|str> <min> <minLE 0|1> <maxLE 0|1> <max> [<valLE 0|1>] <x1> [<x2>]
//   (numbers: integers in decimal, doubles in any strtod syntax incl. hex floats, nan, inf)
#include <nano/parameter.h>
#include <cerrno>
#include <cmath>
#include <cstdio>
#include <cstdlib>
#include <cstring>
#include <limits>
#include <string>
#include <vector>
using namespace nano;

static LEorLT comp(int le) { return le ? LEorLT{LE} : LEorLT{LT}; }
static bool   cmp(int le, double a, double b) { return le ? a <= b : a < b; }
static bool   cmpi(int le, int64_t a, int64_t b) { return le ? a <= b : a < b; }
static bool   f2i_defined(double x) { return std::isfinite(x) && x >= -9223372036854775808.0 && x < 9223372036854775808.0; }

template <class tscalar>
static bool make(parameter_t& out, bool pair, tscalar min, int minLE, tscalar v1, int valLE, tscalar v2, int maxLE, tscalar max, bool integer)
{
    try
    {
        if (!pair)
            out = integer ? parameter_t::make_integer("p", min, comp(minLE), v1, comp(maxLE), max)
                          : parameter_t::make_scalar("p", min, comp(minLE), v1, comp(maxLE), max);
        else
            out = integer ? parameter_t::make_integer_pair("p", min, comp(minLE), v1, comp(valLE), v2, comp(maxLE), max)
                          : parameter_t::make_scalar_pair("p", min, comp(minLE), v1, comp(valLE), v2, comp(maxLE), max);
        return true;
    }
    catch (std::exception&)
    {
        return false;
    }
}

int main(int argc, char** argv)
{
    if (argc < 8) return 2;
    const std::string kind = argv[1], tv = argv[2];
    const bool        integer = kind[0] == 'i', pair = kind[1] == 'p';
    int               a = 3;
    const char*       smin = argv[a++];
    const int         minLE = std::atoi(argv[a++]), maxLE = std::atoi(argv[a++]);
    const char*       smax = argv[a++];
    const int         valLE = pair ? std::atoi(argv[a++]) : 1;
    if (argc < a + (pair ? 2 : 1)) return 2;
    const char* sx1 = argv[a++];
    const char* sx2 = pair ? argv[a++] : sx1;
    const double x1 = std::strtod(sx1, nullptr), x2 = std::strtod(sx2, nullptr);
    const int64_t ix1 = std::strtoll(sx1, nullptr, 10), ix2 = std::strtoll(sx2, nullptr, 10);
    // the assigned number is an integer (exact in ix*), else a double (x*); a string denotes the number the parameter's kind
    // parses from it (base-10 integer prefix for integer parameters: std::stoll, a floating-point literal otherwise: std::stod)
    const bool xint = tv == "i64" || tv == "i32" || (tv == "str" && integer);
    bool       unparsable = false;
    if (tv == "str")
    {
        for (const char* sx : {sx1, sx2})
        {
            char* end = nullptr;
            errno     = 0;
            if (integer) { (void)std::strtoll(sx, &end, 10); } else { (void)std::strtod(sx, &end); }
            unparsable = unparsable || end == sx || errno == ERANGE;
        }
    }

    // a valid initial value inside the domain (the constructor itself validates): try a few candidates
    parameter_t p;
    bool        made = false;
    if (integer)
    {
        const int64_t mn = std::strtoll(smin, nullptr, 10), mx = std::strtoll(smax, nullptr, 10);
        for (const int64_t c : {mn, mn + (mn < std::numeric_limits<int64_t>::max() ? 1 : 0), mx, mx - (mx > std::numeric_limits<int64_t>::min() ? 1 : 0), mn / 2 + mx / 2})
            for (const int64_t d : {c, mx, mx - (mx > std::numeric_limits<int64_t>::min() ? 1 : 0)})
                if (!made) made = make<int64_t>(p, pair, mn, minLE, c, valLE, pair ? d : c, maxLE, mx, true);
    }
    else
    {
        const double mn = std::strtod(smin, nullptr), mx = std::strtod(smax, nullptr);
        for (const double c : {mn, std::nextafter(mn, mx), mx, std::nextafter(mx, mn), mn / 2 + mx / 2})
            for (const double d : {c, mx, std::nextafter(mx, mn)})
                if (!made) made = make<double>(p, pair, mn, minLE, c, valLE, pair ? d : c, maxLE, mx, false);
    }
    if (!made)
    {
        std::printf("{\"note\": \"empty domain: no initial value accepted by the constructor\"}\n");
        return 0;
    }

    // the previous value, the assignment through the public API, the value read back
    const auto   old_i  = !pair && integer ? p.value<int64_t>() : 0;
    const auto   old_f  = !pair && !integer ? p.value<scalar_t>() : 0.0;
    const auto   old_ip = pair && integer ? p.value_pair<int64_t>() : std::make_tuple<int64_t, int64_t>(0, 0);
    const auto   old_fp = pair && !integer ? p.value_pair<scalar_t>() : std::make_tuple(0.0, 0.0);
    bool         thrown = false;
    try
    {
        if (tv == "str")
            p = pair ? (std::string(sx1) + "," + sx2) : std::string(sx1);
        else if (!pair && xint)
            p = ix1;
        else if (!pair)
            p = x1;
        else if (tv == "i32")
            p = std::make_tuple(static_cast<int32_t>(ix1), static_cast<int32_t>(ix2));
        else if (xint)
            p = std::make_tuple(ix1, ix2);
        else
            p = std::make_tuple(x1, x2);
    }
    catch (std::exception&)
    {
        thrown = true;
    }

    // reference model
    bool undefined = false, accept = false, same = true, readback = true;
    if (integer)
    {
        const int64_t mn = std::strtoll(smin, nullptr, 10), mx = std::strtoll(smax, nullptr, 10);
        if (!xint && (!f2i_defined(x1) || (pair && !f2i_defined(x2)))) undefined = true;
        const int64_t c1 = xint ? ix1 : (undefined ? 0 : static_cast<int64_t>(x1));
        const int64_t c2 = xint ? ix2 : (undefined ? 0 : static_cast<int64_t>(x2));
        accept = pair ? (cmpi(minLE, mn, c1) && cmpi(valLE, c1, c2) && cmpi(maxLE, c2, mx)) : (cmpi(minLE, mn, c1) && cmpi(maxLE, c1, mx));
        if (!pair)
        {
            const auto now = p.value<int64_t>();
            same = now == old_i;
            readback = now == c1;
        }
        else
        {
            const auto now = p.value_pair<int64_t>();
            same = now == old_ip;
            readback = now == std::make_tuple(c1, c2);
        }
    }
    else
    {
        const double mn = std::strtod(smin, nullptr), mx = std::strtod(smax, nullptr);
        const double c1 = xint ? static_cast<double>(ix1) : x1, c2 = xint ? static_cast<double>(ix2) : x2;
        accept = std::isfinite(c1) && std::isfinite(c2) &&
                 (pair ? (cmp(minLE, mn, c1) && cmp(valLE, c1, c2) && cmp(maxLE, c2, mx)) : (cmp(minLE, mn, c1) && cmp(maxLE, c1, mx)));
        if (!pair)
        {
            const auto now = p.value<scalar_t>();
            same = now == old_f;
            readback = now == c1;
        }
        else
        {
            const auto now = p.value_pair<scalar_t>();
            same = now == old_fp;
            readback = now == std::make_tuple(c1, c2);
        }
    }
    if (unparsable) accept = false;   // std::stoll / std::stod throw: nothing may change
    const bool ok = !undefined && (accept ? (!thrown && readback) : (thrown && same));
    std::printf("{\"kind\": \"%s\", \"assigned\": \"%s%s%s\", \"conversion_undefined\": %s, \"model_accepts\": %s, \"thrown\": %s, "
                "\"previous_value_kept\": %s, \"read_back_is_converted_value\": %s, \"ok\": %s}\n",
                kind.c_str(), sx1, pair ? "," : "", pair ? sx2 : "", undefined ? "true" : "false", accept ? "true" : "false",
                thrown ? "true" : "false", same ? "true" : "false", readback ? "true" : "false", ok ? "true" : "false");
    return ok ? 0 : 1;
}
