// exhaustive: for every state s of std::minstd_rand (1 .. 2^31-2), the FIRST draw of a fresh
// std::normal_distribution<double>{0.5, 2.0} (as in sample_from_ball) times +-1: is it exactly 0.0 ?
// also records the smallest |draw| seen.  usage: zero_draw <part> <parts>
#include <random>
#include <cstdio>
#include <cstdlib>
#include <cmath>
int main(int argc, char** argv)
{
    const unsigned long part = std::strtoul(argv[1], nullptr, 10), parts = std::strtoul(argv[2], nullptr, 10);
    const unsigned long lo = 1, hi = 2147483646UL;
    const unsigned long span = (hi - lo + 1 + parts - 1) / parts;
    const unsigned long b = lo + part * span, e = std::min(hi + 1, b + span);
    unsigned long zeros = 0, first_zero = 0, nonfinite = 0;
    double minabs = 1e300; unsigned long argmin = 0;
    for (unsigned long s = b; s < e; ++s)
    {
        std::minstd_rand rng; rng.seed(s);
        std::normal_distribution<double> d{0.5, 2.0};
        const double v = d(rng);
        if (v == 0.0) { if (!zeros) first_zero = s; ++zeros; }
        if (!std::isfinite(v)) ++nonfinite;
        const double a = std::fabs(v);
        if (a < minabs) { minabs = a; argmin = s; }
    }
    std::printf("part %lu/%lu states [%lu,%lu): zeros=%lu first_zero_state=%lu nonfinite=%lu min|draw|=%.17g at state %lu\n", part, parts, b, e, zeros, first_zero, nonfinite, minabs, argmin);
    return 0;
}
