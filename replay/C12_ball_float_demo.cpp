// how far outside the ball does the IEEE result of the REAL sample_from_ball land? (the proof is over the reals)
#include <nano/core/sampling.h>
#include <cstdio>
#include <cmath>
using namespace nano;
int main()
{
    double worst = 0.0, worst_r = 0, worst_c = 0; long worst_n = 0, outside = 0, total = 0, nonfinite = 0;
    auto rng = make_rng(7);
    for (tensor_size_t n : {1, 2, 3, 5, 10, 50})
        for (double radius : {1e-6, 1e-3, 1.0, 1e3, 1e6})
            for (double centre : {0.0, 1.0, 1e3, 1e6})
                for (int trial = 0; trial < 2000; ++trial)
                {
                    vector_t x0 = make_full_vector<scalar_t>(n, centre);
                    const auto x = sample_from_ball(x0, radius, rng);
                    // distance in long double from the stored doubles
                    long double d2 = 0;
                    for (tensor_size_t i = 0; i < n; ++i) { const long double d = (long double)x(i) - (long double)x0(i); d2 += d * d; }
                    const double rel = (double)(std::sqrt(d2) / (long double)radius) - 1.0;
                    ++total;
                    if (!std::isfinite(rel)) { ++nonfinite; continue; }
                    if (rel > 0) { ++outside; if (rel > worst) { worst = rel; worst_r = radius; worst_c = centre; worst_n = n; } }
                }
    std::printf("%ld points, %ld non-finite, %ld outside the ball in exact arithmetic on the stored doubles; worst |x-x0|/radius - 1 = %.3g (n=%ld radius=%g centre=%g)\n",
                total, nonfinite, outside, worst, worst_n, worst_r, worst_c);
    return 0;
}
