// C14 native replay: one scalar column with the given values (NaN = missing) goes through the REAL library:
//   datasource -> dataset -> scalar_stats_t::make_feature_stats (::update, ::done) -> scale / upscale for every mode.
// The property's own postconditions are evaluated natively:
//   (a) the (de)normalisers are positive numbers,  (b) scaling followed by up-scaling returns the original finite values.
// exit 1 = a postcondition is violated (counterexample reproduced), exit 0 = all hold, exit 2 = usage / setup problem.
#include <cmath>
#include <cstdio>
#include <cstdlib>
#include <nano/dataset.h>
#include <nano/dataset/stats.h>
#include <nano/datasource.h>
#include <nano/generator/elemwise_identity.h>
#include <vector>

using namespace nano;

namespace
{
class column_datasource_t final : public datasource_t
{
public:
    explicit column_datasource_t(std::vector<double> values)
        : datasource_t("c14-replay")
        , m_values(std::move(values))
    {
    }

    rdatasource_t clone() const override { return std::make_unique<column_datasource_t>(*this); }

private:
    void do_load() override
    {
        const auto samples = static_cast<tensor_size_t>(m_values.size());
        resize(samples, features_t{feature_t{"x"}.scalar(feature_type::float64)});
        for (tensor_size_t sample = 0; sample < samples; ++sample)
        {
            const auto value = m_values[static_cast<size_t>(sample)];
            if (std::isfinite(value))
            {
                set(sample, 0, value);
            }
        }
    }

    std::vector<double> m_values;
};
} // namespace

int main(int argc, char** argv)
{
    if (argc < 2)
    {
        std::printf("usage: C14_replay v0 v1 ...\n");
        return 2;
    }
    std::vector<double> values;
    for (int i = 1; i < argc; ++i)
    {
        values.push_back(std::atof(argv[i]));
    }

    column_datasource_t datasource(values);
    datasource.load();
    auto dataset = dataset_t{datasource};
    dataset.add<scalar_identity_generator_t>();

    const auto samples = arange(0, static_cast<tensor_size_t>(values.size()));
    const auto stats   = scalar_stats_t::make_feature_stats(dataset, samples, 0);

    std::printf("N=%ld min=%.17g max=%.17g mean=%.17g stdev=%.17g div_range=%.17g mul_range=%.17g div_stdev=%.17g mul_stdev=%.17g\n",
                static_cast<long>(stats.m_samples(0)), stats.m_min(0), stats.m_max(0), stats.m_mean(0), stats.m_stdev(0),
                stats.m_div_range(0), stats.m_mul_range(0), stats.m_div_stdev(0), stats.m_mul_stdev(0));

    auto violated = false;
    if (!(stats.m_mul_range(0) > 0.0) || !(stats.m_div_range(0) > 0.0))
    {
        std::printf("VIOLATED: range (de)normaliser is not a positive number\n");
        violated = true;
    }
    if (!(stats.m_mul_stdev(0) > 0.0) || !(stats.m_div_stdev(0) > 0.0))
    {
        std::printf("VIOLATED: deviation (de)normaliser is not a positive number\n");
        violated = true;
    }

    const char* names[] = {"none", "mean", "minmax", "standard"};
    for (const auto mode : {scaling_type::none, scaling_type::mean, scaling_type::minmax, scaling_type::standard})
    {
        tensor2d_t data(static_cast<tensor_size_t>(values.size()), 1);
        for (size_t i = 0; i < values.size(); ++i)
        {
            data(static_cast<tensor_size_t>(i), 0) = values[i];
        }
        stats.scale(mode, data);
        stats.upscale(mode, data);
        for (size_t i = 0; i < values.size(); ++i)
        {
            const auto original = values[i];
            const auto restored = data(static_cast<tensor_size_t>(i), 0);
            if (std::isfinite(original) && !(std::fabs(restored - original) <= 1e-6 * (1.0 + std::fabs(original))))
            {
                std::printf("VIOLATED: mode %s: upscale(scale(%.17g)) = %.17g\n", names[static_cast<int>(mode)], original, restored);
                violated = true;
            }
        }
    }
    return violated ? 1 : 0;
}
