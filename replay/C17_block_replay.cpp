// C17 native replay for the section_t::block / ~section_t / map completion and re-throw clauses (specs/C17/section.h) on the REAL
// pool (header + src/core/parallel.cpp of the working tree).  The two clauses are schedule dependent; the scenarios make the
// relevant schedule overwhelmingly likely with sleeps (they cannot force it):
//   completion: the task of element 0 throws at once, every other task sleeps a little and then counts itself as finished; when map
//               is left through the exception, every task of the call must have finished ("map returns only after all its tasks
//               finished", also on the exceptional path);
//   rethrow:    the task of element 0 is slow, a later task throws at once and has finished before the caller gets to its future;
//               with raise == true the exception must leave map.
// exit 1 = a clause was violated on the real code, exit 0 = not observed.
#include <atomic>
#include <chrono>
#include <cstdio>
#include <nano/core/parallel.h>
#include <stdexcept>
#include <thread>

int main()
{
    using namespace std::chrono_literals;
    int violations = 0;
    for (size_t threads : {size_t(2), size_t(4)})
    {
        nano::parallel::pool_t pool(threads);
        if (pool.size() < 2) { std::printf("pool size %zu: sequential branch only, nothing to observe\n", pool.size()); continue; }
        for (int round = 0; round < 5; ++round)
        {
            const int n = 16;
            {
                std::atomic<int> finished{0};
                bool thrown = false;
                try
                {
                    pool.map(n, [&](int index, size_t) {
                        if (index == 0) { throw std::runtime_error("task 0 failed"); }
                        std::this_thread::sleep_for(3ms);
                        ++finished;
                    }, true);
                }
                catch (const std::exception&) { thrown = true; }
                const int seen = finished.load();
                if (!thrown) { std::printf("VIOLATION rethrow: pool %zu, map(%d): the exception of task 0 did not leave map (raise = true)\n", pool.size(), n); ++violations; }
                if (seen != n - 1) { std::printf("VIOLATION completion: pool %zu, map(%d) was left by the exception while %d of its %d other tasks had not finished\n", pool.size(), n, n - 1 - seen, n - 1); ++violations; }
                std::this_thread::sleep_for(80ms);      // let stragglers end before `finished` goes out of scope
            }
            {
                bool thrown = false;
                try
                {
                    pool.map(n, [&](int index, size_t) {
                        if (index == 0) { std::this_thread::sleep_for(30ms); }
                        if (index == 5) { throw std::runtime_error("task 5 failed"); }
                    }, true);
                }
                catch (const std::exception&) { thrown = true; }
                if (!thrown) { std::printf("VIOLATION rethrow: pool %zu, map(%d): the exception of task 5 (finished before the caller reached its future) did not leave map (raise = true)\n", pool.size(), n); ++violations; }
            }
        }
    }
    if (!violations) { std::printf("OK: map was only left after all its tasks finished, and every task exception was re-thrown\n"); }
    return violations ? 1 : 0;
}
