// write -> read round trip of EMPTY tensors with large leading dimensions (real nano::write / nano::read)
#include <nano/tensor/stream.h>
#include <iostream>
#include <sstream>
using namespace nano;
template <class ttensor>
static int check(const char* what, const ttensor& t)
{
    std::ostringstream os;
    const bool wok = static_cast<bool>(::nano::write(os, t));
    const auto bytes = os.str();
    std::istringstream is(bytes);
    ttensor r;
    const bool rok = static_cast<bool>(::nano::read(is, r));
    const bool same = rok && r.dims() == t.dims();
    std::cout << (wok && same ? "ok:   " : "FAIL: ") << what << ": size()=" << t.size() << ", written=" << wok << " (" << bytes.size()
              << " bytes), read back=" << rok << ", same dims=" << same << "\n";
    return (wok && same) ? 0 : 1;
}
int main()
{
    int failures = 0;
    failures += check("double 3x0x5", tensor_mem_t<double, 3>(3, 0, 5));
    failures += check("double 0x1073741825x1073741825", tensor_mem_t<double, 3>(0, 1073741825, 1073741825));
    failures += check("double 1073741825x1073741825x0", tensor_mem_t<double, 3>(1073741825, 1073741825, 0));
    failures += check("double 2147483647x2147483647x0x7", tensor_mem_t<double, 4>(2147483647, 2147483647, 0, 7));
    failures += check("int8 2147483647x2147483647x2147483647x0", tensor_mem_t<int8_t, 4>(2147483647, 2147483647, 2147483647, 0));
    failures += check("double 1073741823x1073741824x0 (product of the leading dims == max_size - 2^30 + ..: fits)", tensor_mem_t<double, 3>(1073741823, 1073741824, 0));
    std::cout << failures << " failure(s)\n";
    return failures ? 1 : 0;
}
