// native replay for C16: evaluates the real nano::index / nano::size / nano::index0 on concrete dims and indices and
// compares with an independent row-major reference. usage: C16_replay <rank> <d0..> <i0..>
#include <nano/tensor/dims.h>
#include <cstdio>
#include <cstdlib>
#include <vector>
using namespace nano;
template <size_t R, size_t... I>
static tensor_size_t call_index(const tensor_dims_t<R>& d, const std::vector<tensor_size_t>& i, std::index_sequence<I...>)
{
    return index(d, i[I]...);
}
template <size_t R>
static int run(char** argv)
{
    tensor_dims_t<R>            d{};
    std::vector<tensor_size_t> i(R);
    for (size_t k = 0; k < R; ++k) d[k] = std::atoll(argv[2 + k]);
    for (size_t k = 0; k < R; ++k) i[k] = std::atoll(argv[2 + R + k]);
    __int128 ref = 0, sz = 1;
    for (size_t k = 0; k < R; ++k) { ref = ref * d[k] + i[k]; sz *= d[k]; }
    const auto got  = call_index(d, i, std::make_index_sequence<R>{});
    const auto gsz  = size(d);
    bool empty = false;   // an empty tensor has no valid index tuple: only size() is compared then
    for (size_t k = 0; k < R; ++k) empty = empty || d[k] <= 0;
    const bool ok   = (__int128)gsz == sz && (empty || ((__int128)got == ref && got >= 0 && got < gsz));
    std::printf("{\"index\": %lld, \"reference\": %lld, \"size\": %lld, \"reference_size\": %lld, \"ok\": %s}\n", (long long)got,
                (long long)ref, (long long)gsz, (long long)sz, ok ? "true" : "false");
    return ok ? 0 : 1;
}
int main(int argc, char** argv)
{
    const int R = std::atoi(argv[1]);
    if (argc != 2 + 2 * R) return 2;
    switch (R)
    {
    case 1: return run<1>(argv);
    case 2: return run<2>(argv);
    case 3: return run<3>(argv);
    case 4: return run<4>(argv);
    case 5: return run<5>(argv);
    default: return 2;
    }
}
