// native replay for C20 (bin): builds a real histogram_t over the given thresholds and compares bin(v) with the counting
// rule #{j : t_j <= v} and with the bin update() actually counted v in. usage: C20_replay bin <v> <t0> <t1> ...
#include <nano/core/histogram.h>
#include <cstdio>
#include <cstdlib>
#include <cstring>
#include <vector>
#include <algorithm>
#include <cmath>
using namespace nano;
// mode `hist <i|d> <nthresholds> t... v...`: builds a real histogram over an integer ('i') or real ('d') value list and
// compares every bin's count / mean / median with those of the values the counting rule (t_{b-1} <= v < t_b) puts there,
// and bin(v) with the bin v was counted in.
template <class tvalue>
static int hist(const std::vector<double>& thr, std::vector<tvalue> values)
{
    tensor_mem_t<scalar_t, 1> thresholds(static_cast<tensor_size_t>(thr.size()));
    for (size_t i = 0; i < thr.size(); ++i) thresholds(static_cast<tensor_size_t>(i)) = thr[i];
    const auto h = histogram_t::make_from_thresholds(values.data(), values.data() + values.size(), thresholds);
    auto sorted_thr = thr;
    std::sort(sorted_thr.begin(), sorted_thr.end());
    int bad = 0;
    for (tensor_size_t b = 0; b < h.bins(); ++b)
    {
        std::vector<double> in;
        for (const auto v : values)
        {
            const auto dv = static_cast<double>(v);
            tensor_size_t  rule = 0;
            for (const auto t : sorted_thr) rule += (t <= dv) ? 1 : 0;
            if (rule == b) in.push_back(dv);
        }
        std::sort(in.begin(), in.end());
        const auto n    = static_cast<tensor_size_t>(in.size());
        double     mean = 0.0, med = 0.0;
        for (const auto v : in) mean += v;
        if (n > 0) { mean /= static_cast<double>(n); med = (n % 2 == 1) ? in[n / 2] : 0.5 * (in[n / 2 - 1] + in[n / 2]); }
        const bool okc = h.count(b) == n;
        const bool okm = n == 0 || (std::fabs(h.mean(b) - mean) <= 1e-9 * (1.0 + std::fabs(mean)) && std::fabs(h.median(b) - med) <= 1e-9 * (1.0 + std::fabs(med)));
        if (!okc || !okm)
        {
            ++bad;
            std::printf("{\"bin\": %lld, \"count\": %lld, \"expected_count\": %lld, \"mean\": %g, \"expected_mean\": %g, \"median\": %g, \"expected_median\": %g}\n",
                        (long long)b, (long long)h.count(b), (long long)n, h.mean(b), mean, h.median(b), med);
        }
    }
    for (const auto v : values)
    {
        tensor_size_t rule = 0;
        for (const auto t : sorted_thr) rule += (t <= static_cast<double>(v)) ? 1 : 0;
        if (h.bin(v) != rule) { ++bad; std::printf("{\"query\": %g, \"bin\": %lld, \"counting_rule\": %lld}\n", (double)v, (long long)h.bin(v), (long long)rule); }
    }
    std::printf("{\"mismatches\": %d}\n", bad);
    return bad ? 1 : 0;
}

// mode `pct <P> <n>`: the percentile of the sorted list 0, 1, ..., n-1 at the integer percentage P against the exact
// position P(n-1)/100 (value at the floor, midpoint of the two neighbours when fractional), both variants.
static int pct(const long P, const long n)
{
    std::vector<double> values(static_cast<size_t>(n));
    for (long i = 0; i < n; ++i) values[static_cast<size_t>(i)] = static_cast<double>(i);
    const long   lo       = (P * (n - 1)) / 100;
    const bool   exact    = (P * (n - 1)) % 100 == 0;
    const double expected = exact ? static_cast<double>(lo) : (static_cast<double>(lo) + static_cast<double>(lo + 1)) / 2;
    const double sorted   = percentile_sorted(values.data(), values.data() + n, static_cast<double>(P));
    auto         copy     = values;
    const double unsorted = percentile(copy.data(), copy.data() + n, static_cast<double>(P));
    std::printf("percentile P=%ld n=%ld: sorted variant %.17g, unsorted variant %.17g, exact position %ld%s -> expected %.17g\n", P, n, sorted,
                unsorted, lo, exact ? "" : ".5-ish (fractional)", expected);
    return (sorted == expected && unsorted == expected) ? 0 : 1;
}

// mode `med v...`: the unsorted median() of the list (every rotation of it) against the sorted-array reference
static int med(std::vector<double> values)
{
    auto sorted = values;
    std::sort(sorted.begin(), sorted.end());
    const auto   n        = sorted.size();
    const double expected = (n % 2 == 1) ? sorted[n / 2] : (sorted[n / 2 - 1] + sorted[n / 2]) / 2;
    int          bad      = 0;
    for (size_t r = 0; r < n; ++r)
    {
        auto copy = values;
        std::rotate(copy.begin(), copy.begin() + static_cast<std::ptrdiff_t>(r), copy.end());
        auto         copy2 = copy;
        const double got   = median(copy.data(), copy.data() + n);
        const double gotp  = percentile(copy2.data(), copy2.data() + n, 50.0);
        if (got != expected || gotp != expected)
        {
            ++bad;
            std::printf("{\"rotation\": %zu, \"median\": %.17g, \"percentile50\": %.17g, \"expected\": %.17g}\n", r, got, gotp, expected);
        }
    }
    std::printf("{\"mismatches\": %d}\n", bad);
    return bad ? 1 : 0;
}

int main(int argc, char** argv)
{
    if (argc >= 3 && std::strcmp(argv[1], "med") == 0)
    {
        std::vector<double> v;
        for (int i = 2; i < argc; ++i) v.push_back(std::strtod(argv[i], nullptr));
        return med(v);
    }
    if (argc == 4 && std::strcmp(argv[1], "pct") == 0)
    {
        return pct(std::atol(argv[2]), std::atol(argv[3]));
    }
    if (argc >= 5 && std::strcmp(argv[1], "hist") == 0)
    {
        const auto          nt = std::atoi(argv[3]);
        std::vector<double> thr;
        for (int i = 0; i < nt; ++i) thr.push_back(std::strtod(argv[4 + i], nullptr));
        if (argv[2][0] == 'i')
        {
            std::vector<tensor_size_t> v;
            for (int i = 4 + nt; i < argc; ++i) v.push_back(std::atoll(argv[i]));
            return hist(thr, v);
        }
        // narrow integer sample types: 'b' int8_t, 's' int16_t, 'w' int32_t
        if (argv[2][0] == 'b' || argv[2][0] == 's' || argv[2][0] == 'w')
        {
            std::vector<int8_t>  v8;
            std::vector<int16_t> v16;
            std::vector<int32_t> v32;
            for (int i = 4 + nt; i < argc; ++i)
            {
                const auto x = std::atoll(argv[i]);
                v8.push_back(static_cast<int8_t>(x));
                v16.push_back(static_cast<int16_t>(x));
                v32.push_back(static_cast<int32_t>(x));
            }
            return argv[2][0] == 'b' ? hist(thr, v8) : argv[2][0] == 's' ? hist(thr, v16) : hist(thr, v32);
        }
        std::vector<double> v;
        for (int i = 4 + nt; i < argc; ++i) v.push_back(std::strtod(argv[i], nullptr));
        return hist(thr, v);
    }
    if (argc < 4 || std::strcmp(argv[1], "bin") != 0) return 2;
    const double                v = std::strtod(argv[2], nullptr);
    tensor_mem_t<scalar_t, 1>   thresholds(argc - 3);
    for (int i = 3; i < argc; ++i) thresholds(i - 3) = std::strtod(argv[i], nullptr);
    std::vector<double> data{v};   // the query itself is the only datum: update() counts it in exactly one bin
    const auto h = histogram_t::make_from_thresholds(data.data(), data.data() + data.size(), thresholds);
    tensor_size_t rule = 0;
    for (tensor_size_t j = 0; j < h.thresholds().size(); ++j) rule += (h.thresholds()(j) <= v) ? 1 : 0;
    tensor_size_t counted = -1;
    for (tensor_size_t b = 0; b < h.bins(); ++b) if (h.count(b) == 1) counted = b;
    const auto got = h.bin(v);
    const bool ok  = got == rule && got == counted;
    std::printf("{\"bin\": %lld, \"counting_rule\": %lld, \"counted_in\": %lld, \"ok\": %s}\n", (long long)got, (long long)rule,
                (long long)counted, ok ? "true" : "false");
    return ok ? 0 : 1;
}
