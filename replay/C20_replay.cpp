// native replay for C20 (bin): builds a real histogram_t over the given thresholds and compares bin(v) with the counting
// rule #{j : t_j <= v} and with the bin update() actually counted v in. usage: C20_replay bin <v> <t0> <t1> ...
#include <nano/core/histogram.h>
#include <cstdio>
#include <cstdlib>
#include <cstring>
#include <vector>
using namespace nano;
int main(int argc, char** argv)
{
    if (argc < 4 || std::strcmp(argv[1], "bin") != 0) return 2;
    const double                v = std::strtod(argv[2], nullptr);
    tensor_mem_t<scalar_t, 1>   thresholds(argc - 3);
    for (int i = 3; i < argc; ++i) thresholds(i - 3) = std::strtod(argv[i], nullptr);
    std::vector<double> data{v};   // the query itself is the only datum: update() counts it in exactly one bin
    const auto h = histogram_t::make_from_thresholds(data.data(), data.data() + data.size(), thresholds);
    tensor_size_t rule = 0;
    for (tensor_size_t j = 0; j < h.thresholds().size(); ++j) rule += (h.thresholds()(j) <= v) ? 1 : 0;
    tensor_size_t counted = -1;
    for (tensor_size_t b = 0; b < h.bins(); ++b) if (h.count(b) == 1) counted = b;
    const auto got = h.bin(v);
    const bool ok  = got == rule && got == counted;
    std::printf("{\"bin\": %lld, \"counting_rule\": %lld, \"counted_in\": %lld, \"ok\": %s}\n", (long long)got, (long long)rule,
                (long long)counted, ok ? "true" : "false");
    return ok ? 0 : 1;
}
