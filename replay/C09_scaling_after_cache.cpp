// native demonstration for C09 (b): targets_iterator_t::scaling(mode) does NOT invalidate caches built by cache_flatten /
// cache_targets under another mode: after  scaling(standard); cache_*();  scaling(none)  the iterator keeps delivering the rows
// scaled with `standard`, although scaling() now reports `none`.  Runs the REAL library.
// exit 1 = stale values delivered (the hazard exists), exit 0 = the cache follows the mode.
#include <cmath>
#include <cstdio>
#include <limits>
#include <nano/dataset.h>
#include <nano/dataset/iterator.h>
#include <nano/datasource/linear.h>
#include <nano/generator/elemwise_identity.h>
#include <nano/linear/function.h>
#include <nano/loss.h>

using namespace nano;

int main()
{
    auto datasource                                      = linear_datasource_t{};
    datasource.parameter("datasource::linear::samples")  = 30;
    datasource.parameter("datasource::linear::targets")  = 2;
    datasource.parameter("datasource::linear::features") = 4;
    datasource.parameter("datasource::linear::noise")    = 0.1;
    datasource.load();
    auto dataset = dataset_t{datasource, 2U};
    dataset.add<sclass_identity_generator_t>();
    dataset.add<mclass_identity_generator_t>();
    dataset.add<scalar_identity_generator_t>();
    dataset.add<struct_identity_generator_t>();

    const auto loss    = loss_t::all().get("mse");
    const auto samples = arange(0, dataset.samples());
    const auto isize   = dataset.columns();
    const auto tsize   = ::nano::size(dataset.target_dims());
    const vector_t x   = make_random_vector<scalar_t>((isize + 1) * tsize, -1.0, +1.0, 11U);

    const auto value = [&](const flatten_iterator_t& iterator) { return linear::function_t{iterator, *loss, 0.0, 0.0}.vgrad(x); };

    auto cached = flatten_iterator_t{dataset, samples};
    cached.batch(7);
    cached.scaling(scaling_type::standard);
    const auto max = std::numeric_limits<tensor_size_t>::max();
    const auto ok  = cached.cache_flatten(max) && cached.cache_targets(max);
    const auto v_standard_cached = value(cached);

    cached.scaling(scaling_type::none);              // the mode changes AFTER caching
    const auto v_after_switch = value(cached);

    auto fresh = flatten_iterator_t{dataset, samples};
    fresh.batch(7);
    fresh.scaling(scaling_type::none);
    const auto v_none_onthefly = value(fresh);

    std::printf("cached=%d  objective: standard/cached=%.12g  after scaling(none) on the cached iterator=%.12g  none/on-the-fly=%.12g\n",
                ok ? 1 : 0, v_standard_cached, v_after_switch, v_none_onthefly);
    const auto stale = std::fabs(v_after_switch - v_none_onthefly) > 1e-9 * std::max(1.0, std::fabs(v_none_onthefly));
    std::printf("%s\n", stale ? "STALE: the cached rows are still scaled with the mode the cache was built under" : "OK: the cache follows the mode");
    return stale ? 1 : 0;
}
