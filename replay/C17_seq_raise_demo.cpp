// raise == false: does an exception of the operator leave map()?  pool size 1 (sequential branch) vs pool size 4
#include <nano/core/parallel.h>
#include <cstdio>
#include <stdexcept>
int main()
{
    int bad = 0;
    for (size_t threads : {size_t(1), size_t(4)})
    {
        nano::parallel::pool_t pool(threads);
        for (int elements : {1, 8})
        {
            bool left = false;
            try { pool.map(elements, [](int, size_t) { throw std::runtime_error("task failed"); }, /*raise=*/false); }
            catch (const std::exception&) { left = true; }
            std::printf("pool size %zu, map(%d, op, raise=false): exception %s map\n", pool.size(), elements, left ? "LEFT" : "did not leave");
            bad += left;
        }
    }
    return bad ? 1 : 0;
}
