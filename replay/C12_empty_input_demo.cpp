// what does the NDEBUG build of sample_with_replacement do for an EMPTY input list?
// usage: empty_swr <count> [weighted]
#include <nano/core/sampling.h>
#include <cstdio>
#include <cstdlib>
using namespace nano;
int main(int argc, char** argv)
{
    const auto count = static_cast<tensor_size_t>(std::atol(argv[1]));
    const bool weighted = argc > 2;
    indices_t empty{0};
    tensor1d_t weights{0};
    auto rng = make_rng(42);
    std::printf("samples.size()=%ld data=%p count=%ld %s\n", (long)empty.size(), (void*)empty.data(), (long)count, weighted ? "weighted" : "uniform");
    std::fflush(stdout);
    const auto sel = weighted ? sample_with_replacement(empty, weights, count, rng) : sample_with_replacement(empty, count, rng);
    std::printf("returned %ld indices:", (long)sel.size());
    for (tensor_size_t i = 0; i < sel.size() && i < 8; ++i) std::printf(" %ld", (long)sel(i));
    std::printf("\n");
    return 0;
}
