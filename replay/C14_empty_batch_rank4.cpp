// scalar_stats_t::scale(scaling_type, tensor4d_map_t) on an EMPTY batch (0 samples x 3 x 1 x 1)
#include <nano/dataset/stats.h>
#include <cstdio>
using namespace nano;
int main()
{
    scalar_stats_t stats(3);                 // statistics of 3 columns (neutral scaling)
    tensor4d_t     values(0, 3, 1, 1);       // a batch of zero samples: values.size() == 0 == m_min.size() * values.size<0>()
    std::printf("size=%d size<0>=%d -> calling stats.scale(none, values)\n", (int)values.size(), (int)values.size<0>());
    std::fflush(stdout);
    stats.scale(scaling_type::none, values.tensor());   // SIGFPE: reshape(0, -1) computes -size() / (0 * -1)
    std::printf("returned normally\n");
    return 0;
}
