// native replay for C12: runs the real splitters / samplers of the working tree on concrete (n, folds, seed, percentage,
// count) and evaluates the property's own postcondition natively:
//   split:   every (training, validation) pair is disjoint, sorted, union == input; |train| + |valid| == n;
//            k-fold: validation folds partition the input, sizes in [n/folds, n/folds + folds);
//            random: |train| == round-half-up(percentage * n / 100); equal seeds give equal splits
//   sample:  without replacement: `count` distinct sorted members; with replacement: `count` sorted members;
//            weighted: no index of zero weight
//   ball:    sample_from_ball(x0, radius, rng), all four overloads: the point has the dimension of x0, is finite and lies in the
//            ball up to the representation error of x0 + delta (|x - x0| <= radius * (1 + 1e-9) + 4 * sqrt(n) * ulp(max |x0_i|))
// usage: C12_replay kfold|random n folds seed [train_per]        C12_replay without|with|weighted n count [weight scale]
//        C12_replay ball n radius [centre]
// The input list is non-contiguous and NOT sorted: the values 3*i + 7 with neighbours swapped pairwise ("for any list of
// distinct sample indices").  Weighted: the weight of position i is 0 for i % 3 == 1, else scale * (1 + i % 5) -- weights
// are only meaningful up to scale.  exit 1 = property violated, 0 = holds.
#include <algorithm>
#include <cmath>
#include <cstdio>
#include <cstdlib>
#include <nano/core/sampling.h>
#include <nano/splitter.h>
#include <map>
#include <set>
#include <string>
using namespace nano;

static indices_t make_input(tensor_size_t n)
{
    indices_t s(n);
    for (tensor_size_t i = 0; i < n; ++i)
    {
        s(i) = 3 * i + 7;
    }
    for (tensor_size_t i = 0; i + 1 < n; i += 2)
    {
        std::swap(s(i), s(i + 1));
    }
    return s;
}

static bool sorted(const indices_t& v)
{
    return std::is_sorted(std::begin(v), std::end(v));
}

static int fail(const char* what)
{
    std::printf("{\"violates\": 1, \"what\": \"%s\"}\n", what);
    return 1;
}

int main(int argc, char* argv[])
{
    if (argc < 4)
    {
        return 2;
    }
    const auto kind = std::string(argv[1]);
    const auto n    = static_cast<tensor_size_t>(std::atoll(argv[2]));
    if (kind == "ball")
    {
        const auto radius = std::atof(argv[3]);
        const auto centre = argc > 4 ? std::atof(argv[4]) : 1.0;
        auto       x0     = make_full_vector<scalar_t>(n, centre);
        for (tensor_size_t i = 0; i < n; ++i)
        {
            x0(i) += 0.125 * static_cast<scalar_t>(i);
        }
        const auto slack = 4.0 * std::sqrt(static_cast<double>(n)) * (std::nextafter(std::fabs(centre) + 0.125 * static_cast<double>(n), 1e300) - (std::fabs(centre) + 0.125 * static_cast<double>(n)));
        auto       rng   = make_rng(42);
        for (int trial = 0; trial < 4000; ++trial)
        {
            vector_t x;
            switch (trial % 4)
            {
            case 0: x = sample_from_ball(x0, radius, rng); break;
            case 1: x = sample_from_ball(x0, radius); break;
            case 2: x = vector_t{n}; sample_from_ball(x0, radius, x, rng); break;
            default: x = vector_t{n}; sample_from_ball(x0, radius, x); break;
            }
            if (x.size() != x0.size())
            {
                return fail("ball: the point does not have the dimension of x0");
            }
            long double d2 = 0;
            for (tensor_size_t i = 0; i < n; ++i)
            {
                const long double d = static_cast<long double>(x(i)) - static_cast<long double>(x0(i));
                d2 += d * d;
            }
            const auto dist = static_cast<double>(std::sqrt(d2));
            if (!std::isfinite(dist) || dist > radius * (1.0 + 1e-9) + slack)
            {
                std::printf("{\"violates\": 1, \"what\": \"ball: point outside the ball\", \"n\": %ld, \"radius\": %.17g, \"distance\": %.17g, \"overload\": %d}\n",
                            static_cast<long>(n), radius, dist, trial % 4);
                return 1;
            }
        }
        std::printf("{\"violates\": 0, \"kind\": \"ball\", \"n\": %ld}\n", static_cast<long>(n));
        return 0;
    }
    const auto in   = make_input(n);
    const auto all  = std::set<tensor_size_t>(std::begin(in), std::end(in));

    if (kind == "kfold" || kind == "random")
    {
        const auto folds = static_cast<tensor_size_t>(std::atoll(argv[3]));
        const auto seed  = argc > 4 ? std::atoll(argv[4]) : 42;
        const auto perc  = argc > 5 ? std::atoll(argv[5]) : 80;
        auto       sp    = splitter_t::all().get(kind == "kfold" ? "k-fold" : "random");
        sp->parameter("splitter::folds") = folds;
        sp->parameter("splitter::seed")  = seed;
        if (kind == "random")
        {
            sp->parameter("splitter::random::train_per") = perc;
        }
        const auto splits = sp->split(in);
        const auto again  = sp->split(in);
        if (static_cast<tensor_size_t>(splits.size()) != folds)
        {
            return fail("number of pairs != folds");
        }
        std::multiset<tensor_size_t> validated;
        for (size_t f = 0; f < splits.size(); ++f)
        {
            const auto& [train, valid] = splits[f];
            if (!sorted(train) || !sorted(valid))
            {
                return fail("part not sorted");
            }
            if (train.size() + valid.size() != n)
            {
                return fail("|train| + |valid| != n");
            }
            std::set<tensor_size_t> u(std::begin(train), std::end(train));
            const auto              ntrain = u.size();
            u.insert(std::begin(valid), std::end(valid));
            if (static_cast<tensor_size_t>(ntrain) != train.size() || static_cast<tensor_size_t>(u.size()) != n || u != all)
            {
                return fail("train/valid not disjoint or union != input");
            }
            if (kind == "kfold")
            {
                validated.insert(std::begin(valid), std::end(valid));
                if (valid.size() < n / folds || valid.size() >= n / folds + folds)
                {
                    return fail("k-fold validation size outside [n/folds, n/folds + folds)");
                }
            }
            else if (100 * train.size() > perc * n + 50 || perc * n + 50 >= 100 * train.size() + 100)
            {
                return fail("random: |train| != round(percentage*n/100)");
            }
            if (again[f].first.size() != train.size() || !std::equal(std::begin(train), std::end(train), std::begin(again[f].first)) ||
                again[f].second.size() != valid.size() || !std::equal(std::begin(valid), std::end(valid), std::begin(again[f].second)))
            {
                return fail("equal seeds give different splits");
            }
        }
        if (kind == "kfold" && (validated.size() != all.size() || std::set<tensor_size_t>(validated.begin(), validated.end()) != all))
        {
            return fail("k-fold validation folds do not partition the input");
        }
        std::printf("{\"violates\": 0, \"kind\": \"%s\", \"n\": %ld, \"folds\": %ld}\n", kind.c_str(), static_cast<long>(n), static_cast<long>(folds));
        return 0;
    }

    const auto count = static_cast<tensor_size_t>(std::atoll(argv[3]));
    const auto scale = argc > 4 ? std::atof(argv[4]) : 1.0;
    std::map<tensor_size_t, tensor_size_t> position;
    for (tensor_size_t i = 0; i < n; ++i)
    {
        position[in(i)] = i;
    }
    auto       rng   = make_rng(42);
    indices_t  sel;
    tensor1d_t weights(n);
    for (tensor_size_t i = 0; i < n; ++i)
    {
        weights(i) = (i % 3 == 1) ? 0.0 : scale * (1.0 + static_cast<scalar_t>(i % 5));
    }
    if (kind == "without")
    {
        sel = sample_without_replacement(in, count, rng);
    }
    else if (kind == "with")
    {
        sel = sample_with_replacement(in, count, rng);
    }
    else
    {
        sel = sample_with_replacement(in, weights, count, rng);
    }
    if (sel.size() != count)
    {
        return fail("size != count");
    }
    if (!sorted(sel))
    {
        return fail("selection not sorted");
    }
    for (const auto s : sel)
    {
        if (all.count(s) == 0)
        {
            return fail("selected index is not a member of the input");
        }
        if (kind == "weighted" && weights(position[s]) <= 0.0)
        {
            return fail("selected index has zero weight");
        }
    }
    if (kind == "without" && static_cast<tensor_size_t>(std::set<tensor_size_t>(std::begin(sel), std::end(sel)).size()) != count)
    {
        return fail("selected indices are not distinct");
    }
    std::printf("{\"violates\": 0, \"kind\": \"%s\", \"n\": %ld, \"count\": %ld}\n", kind.c_str(), static_cast<long>(n), static_cast<long>(count));
    return 0;
}
