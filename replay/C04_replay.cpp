// native replay for C04 (obligation solver_done_nan.postcondition): runs the REAL solver_t::done on a real program_t and a
// real solver_state_t whose dual (or primal) residual contains a NaN, and evaluates the property's own clause
//   status == converged  =>  eta < epsilon && ||rdual||_2 < epsilon && ||rprim||_2 < epsilon.
// solver_t::done and solver_t::program_t are private to src/program/solver.cpp, so that translation unit is included
// verbatim (no copy of its text); everything else comes from the library built from the working tree.
#include <nano/configurable.h>
#include <nano/logger.h>
#include <nano/program/linear.h>
#include <nano/program/quadratic.h>
#include <nano/program/state.h>
#define private public // only solver.h itself is read with this in force: everything it includes is already included
#include <nano/program/solver.h>
#undef private
#include "program/solver.cpp"
#include <cmath>
#include <cstdio>
#include <cstdlib>
#include <cstring>

// usage: C04_replay <eta> <rdual0> <rprim0> <epsilon>      (nan / inf accepted)
int main(int argc, char* argv[])
{
    const auto arg = [&](int i, double d) { return argc > i ? std::strtod(argv[i], nullptr) : d; };
    const auto eta     = arg(1, 0.0);
    const auto rdual0  = arg(2, std::numeric_limits<double>::quiet_NaN());
    const auto rprim0  = arg(3, 0.0);
    const auto epsilon = arg(4, 1e-10);

    // minimise x subject to x = 1 and -x <= 0: the point x = 1 is feasible
    const auto program = make_linear(make_vector<scalar_t>(1.0), make_equality(make_matrix<scalar_t>(1, 1.0), make_vector<scalar_t>(1.0)),
                                     make_inequality(make_matrix<scalar_t>(1, -1.0), make_vector<scalar_t>(0.0)));
    const auto iprogram = solver_t::program_t{program};

    auto state       = solver_state_t{1, 1, 1};
    state.m_x(0)     = 1.0;
    state.m_u(0)     = 0.0;
    state.m_v(0)     = 0.0;
    state.m_eta      = eta;
    state.m_rdual(0) = rdual0;
    state.m_rprim(0) = rprim0;
    state.m_rcent(0) = 0.0;

    const auto feasible = iprogram.feasible(state);
    solver_t::done(iprogram, state, epsilon, make_null_logger());

    const auto rdual     = state.m_rdual.lpNorm<2>();
    const auto rprim     = state.m_rprim.lpNorm<2>();
    const auto converged = state.m_status == solver_status::converged;
    const auto optimal   = state.m_eta < epsilon && rdual < epsilon && rprim < epsilon;
    const auto violates  = converged && !(feasible && optimal);
    std::printf("{\"feasible\": %d, \"eta\": %g, \"rdual_norm\": %g, \"rprim_norm\": %g, \"epsilon\": %g, \"status_converged\": %d, "
                "\"all_three_below_epsilon\": %d, \"violates\": %d}\n",
                feasible ? 1 : 0, state.m_eta, rdual, rprim, epsilon, converged ? 1 : 0, optimal ? 1 : 0, violates ? 1 : 0);
    return violates ? 1 : 0;
}
