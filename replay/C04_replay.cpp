// native replay for C04: every scenario runs the REAL code of the working tree and evaluates the property's own clause.
//   done <eta> <rdual0> <rprim0> <epsilon>   the real solver_t::done on a feasible state with these residuals:
//                                            converged => eta < eps && |rdual| < eps && |rprim| < eps
//   scale                                    LP / QP whose objective coefficients are ~1e-4 (norm below the 1e-3 floor of the
//                                            normalisation): converged => reported fx agrees with the objective at the returned x
//   noineq                                   programs without inequalities whose equalities contradict each other:
//                                            converged is never reported for an infeasible program
//   stale                                    small QPs: are the residual fields / fx of a converged state bitwise those of the returned
//                                            (x, u, v) (recomputed with the real program_t::update)?  On the line-search-exhausted exit they are
//                                            those of the last trial point (tolerated: documentation); fails only beyond 1e-6 relative on fx
//   rescale                                  a convex QP with two independent equality rows, as stated and with the rows rescaled (x 100, x 0.01: an
//                                            equivalent restatement, all coefficients within 1e-2 .. 1e2 except the right-hand side): converged => every
//                                            STATED equality row holds within 1e-6 (1 + |b|_inf), and both statements give the same point
// solver_t::done and solver_t::program_t are private to src/program/solver.cpp, so that translation unit is included
// verbatim (no copy of its text); everything else comes from the library built from the working tree.
#include <nano/configurable.h>
#include <nano/logger.h>
#include <nano/program/linear.h>
#include <nano/program/quadratic.h>
#include <nano/program/state.h>
#define private public // only solver.h itself is read with this in force: everything it includes is already included
#include <nano/program/solver.h>
#undef private
#include "program/solver.cpp"
#include <cmath>
#include <cstdio>
#include <cstdlib>
#include <cstring>
#include <random>
#include <string>

namespace
{
int replay_done(int argc, char* argv[])
{
    const auto arg = [&](int i, double d) { return argc > i ? std::strtod(argv[i], nullptr) : d; };
    const auto eta     = arg(2, 0.0);
    const auto rdual0  = arg(3, std::numeric_limits<double>::quiet_NaN());
    const auto rprim0  = arg(4, 0.0);
    const auto epsilon = arg(5, 1e-10);

    // minimise x subject to x = 1 and -x <= 0: the point x = 1 is feasible
    const auto program = make_linear(make_vector<scalar_t>(1.0), make_equality(make_matrix<scalar_t>(1, 1.0), make_vector<scalar_t>(1.0)),
                                     make_inequality(make_matrix<scalar_t>(1, -1.0), make_vector<scalar_t>(0.0)));
    const auto iprogram = solver_t::program_t{program};

    auto state       = solver_state_t{1, 1, 1};
    state.m_x(0)     = 1.0;
    state.m_u(0)     = 0.0;
    state.m_v(0)     = 0.0;
    state.m_eta      = eta;
    state.m_rdual(0) = rdual0;
    state.m_rprim(0) = rprim0;
    state.m_rcent(0) = 0.0;

    const auto feasible = iprogram.feasible(state);
    solver_t::done(iprogram, state, epsilon, make_null_logger());

    const auto rdual     = state.m_rdual.lpNorm<2>();
    const auto rprim     = state.m_rprim.lpNorm<2>();
    const auto converged = state.m_status == solver_status::converged;
    const auto optimal   = state.m_eta < epsilon && rdual < epsilon && rprim < epsilon;
    const auto violates  = converged && !(feasible && optimal);
    std::printf("{\"feasible\": %d, \"eta\": %g, \"rdual_norm\": %g, \"rprim_norm\": %g, \"epsilon\": %g, \"status_converged\": %d, "
                "\"all_three_below_epsilon\": %d, \"violates\": %d}\n",
                feasible ? 1 : 0, state.m_eta, rdual, rprim, epsilon, converged ? 1 : 0, optimal ? 1 : 0, violates ? 1 : 0);
    return violates ? 1 : 0;
}

// reported objective against the objective evaluated at the returned point, in the caller's own units
template <class tprogram>
int check_objective(const char* name, const tprogram& program, const matrix_t* Q, const vector_t& c)
{
    const auto state = solver_t{}.solve(program, make_null_logger());
    const auto& x    = state.m_x;
    const auto quad  = Q != nullptr ? 0.5 * x.vector().dot(Q->matrix() * x.vector()) : 0.0;
    const auto lin   = x.vector().dot(c.vector());
    const auto mag   = std::fabs(quad) + std::fabs(lin);
    const auto conv  = state.m_status == solver_status::converged;
    const auto viol  = conv && !(std::fabs(state.m_fx - (quad + lin)) <= 1e-6 * mag);
    std::printf("{\"program\": \"%s\", \"converged\": %d, \"reported_fx\": %.17g, \"objective_at_x\": %.17g, \"violates\": %d}\n", name,
                conv ? 1 : 0, state.m_fx, quad + lin, viol ? 1 : 0);
    return viol ? 1 : 0;
}

int replay_scale()
{
    int bad = 0;
    // min 2e-4 x1 + 1e-4 x2  s.t.  x1 + x2 >= 1, x >= 0: optimum (0, 1), value 1e-4
    const auto c = make_vector<scalar_t>(2e-4, 1e-4);
    const auto G = make_matrix<scalar_t>(3, -1.0, -1.0, -1.0, 0.0, 0.0, -1.0);
    const auto h = make_vector<scalar_t>(-1.0, 0.0, 0.0);
    bad += check_objective("LP, objective norm 2.2e-4", make_linear(c, make_inequality(G, h)), nullptr, c);
    // min 1e-4 (x1^2 + x2^2) / 2 + 1e-4 x1  s.t.  x1 + x2 = 1, x >= 0
    const auto Q = make_matrix<scalar_t>(2, 1e-4, 0.0, 0.0, 1e-4);
    const auto q = make_vector<scalar_t>(1e-4, 0.0);
    const auto A = make_matrix<scalar_t>(1, 1.0, 1.0);
    const auto b = make_vector<scalar_t>(1.0);
    const auto L = make_matrix<scalar_t>(2, -1.0, 0.0, 0.0, -1.0);
    const auto l = make_vector<scalar_t>(0.0, 0.0);
    bad += check_objective("QP, objective norm 1.7e-4", make_quadratic(Q, q, make_equality(A, b), make_inequality(L, l)), &Q, q);
    // the same two with the objective x 1000 (a restatement: must behave the same)
    const auto c3 = make_vector<scalar_t>(2e-1, 1e-1);
    bad += check_objective("LP, objective x 1000", make_linear(c3, make_inequality(G, h)), nullptr, c3);
    return bad ? 1 : 0;
}

int replay_noineq()
{
    int bad = 0;
    const auto run = [&](const char* name, const matrix_t& A, const vector_t& b)
    {
        const auto n     = A.cols();
        auto       Q     = matrix_t{matrix_t::zero(n, n)};
        for (tensor_size_t i = 0; i < n; ++i) { Q(i, i) = 1.0; }
        const auto c     = vector_t{vector_t::zero(n)};
        const auto state = solver_t{}.solve(make_quadratic(Q, c, make_equality(A, b)), make_null_logger());
        const auto conv  = state.m_status == solver_status::converged;
        const auto res   = (A.matrix() * state.m_x.vector() - b.vector()).lpNorm<Eigen::Infinity>();
        const auto viol  = conv && !(res <= 1e-6 * (1.0 + b.lpNorm<Eigen::Infinity>()));
        std::printf("{\"program\": \"%s\", \"converged\": %d, \"equality_residual\": %g, \"violates\": %d}\n", name, conv ? 1 : 0, res, viol ? 1 : 0);
        bad += viol ? 1 : 0;
    };
    run("x1 + x2 = 1, x1 + x2 = 2 (infeasible)", make_matrix<scalar_t>(2, 1.0, 1.0, 1.0, 1.0), make_vector<scalar_t>(1.0, 2.0));
    run("x1 = 1, 0 = 1 (infeasible)", make_matrix<scalar_t>(2, 1.0, 0.0, 0.0, 0.0), make_vector<scalar_t>(1.0, 1.0));
    run("x1 = 1, x1 = 2, x1 = 3 (more equalities than variables)", make_matrix<scalar_t>(3, 1.0, 1.0, 1.0), make_vector<scalar_t>(1.0, 2.0, 3.0));
    return bad ? 1 : 0;
}

int replay_rescale()
{
    // minimise 1/2 |x|^2 + c.x  subject to  x1 + x2/2 - x3/2 = 30,  x1 + 2 x2 + x3 = 0,  x >= -100
    const auto Q  = make_matrix<scalar_t>(3, 1.0, 0.0, 0.0, 0.0, 1.0, 0.0, 0.0, 0.0, 1.0);
    const auto c  = make_vector<scalar_t>(-10.0, 20.0, -5.0);
    const auto G  = make_matrix<scalar_t>(3, -1.0, 0.0, 0.0, 0.0, -1.0, 0.0, 0.0, 0.0, -1.0);
    const auto h  = make_vector<scalar_t>(100.0, 100.0, 100.0);
    const auto A0 = make_matrix<scalar_t>(2, 1.0, 0.5, -0.5, 1.0, 2.0, 1.0);
    const auto b0 = make_vector<scalar_t>(30.0, 0.0);
    int  bad = 0;
    auto xs  = std::vector<vector_t>{};
    for (const auto scale : {1.0, 100.0})
    {
        auto A = A0;
        auto b = b0;
        for (tensor_size_t j = 0; j < 3; ++j) { A(0, j) *= scale; A(1, j) /= scale; }
        b(0) *= scale;
        b(1) /= scale;
        const auto state = solver_t{}.solve(make_quadratic(Q, c, make_equality(A, b), make_inequality(G, h)), make_null_logger());
        const auto conv  = state.m_status == solver_status::converged;
        const auto res   = (A.matrix() * state.m_x.vector() - b.vector()).lpNorm<Eigen::Infinity>();
        const auto viol  = conv && !(res <= 1e-6 * (1.0 + b.lpNorm<Eigen::Infinity>()));
        std::printf("{\"program\": \"equality rows x %g and / %g\", \"converged\": %d, \"x\": [%.9g, %.9g, %.9g], \"equality_residual\": %g, \"violates\": %d}\n",
                    scale, scale, conv ? 1 : 0, state.m_x(0), state.m_x(1), state.m_x(2), res, viol ? 1 : 0);
        bad += viol ? 1 : 0;
        if (conv) { xs.push_back(state.m_x); }
    }
    if (xs.size() == 2)
    {
        const auto diff = (xs[0].vector() - xs[1].vector()).lpNorm<2>();
        const auto viol = !(diff <= 1e-6 * (1.0 + xs[0].lpNorm<2>()));
        std::printf("{\"restatement\": \"both converged\", \"distance_of_the_two_points\": %g, \"violates\": %d}\n", diff, viol ? 1 : 0);
        bad += viol ? 1 : 0;
    }
    return bad ? 1 : 0;
}

bool same_bits(const scalar_t a, const scalar_t b)
{
    return std::memcmp(&a, &b, sizeof(a)) == 0;
}

bool same_bits(const vector_t& a, const vector_t& b)
{
    return a.size() == b.size() && (a.size() == 0 || std::memcmp(a.data(), b.data(), sizeof(scalar_t) * static_cast<size_t>(a.size())) == 0);
}

int replay_stale(const int max_programs)
{
    // random small QPs (fixed generator): min x.Qx/2 + c.x  s.t.  A x = b, G x <= h, |x| <= 10 with a strictly feasible point
    int bad = 0, shown = 0, converged = 0;
    double worst = 0.0;
    for (int t = 0; t < max_programs; ++t)
    {
        auto rng = std::mt19937_64{static_cast<uint64_t>(t) + 1U};
        auto U   = std::uniform_real_distribution<double>{-1.0, 1.0};
        const auto n = std::uniform_int_distribution<int>{1, 4}(rng);
        const auto p = std::uniform_int_distribution<int>{0, n - 1}(rng);
        const auto m = std::uniform_int_distribution<int>{1, 3}(rng);
        auto D = matrix_t{n, n}, A = matrix_t{p, n}, G = matrix_t{m + 2 * n, n};
        auto c = vector_t{n}, b = vector_t{p}, h = vector_t{m + 2 * n}, xs = vector_t{n};
        for (tensor_size_t i = 0; i < D.size(); ++i) { D.data()[i] = U(rng); }
        for (tensor_size_t i = 0; i < n; ++i) { c(i) = U(rng); xs(i) = U(rng); }
        for (tensor_size_t i = 0; i < A.size(); ++i) { A.data()[i] = U(rng); }
        G.matrix().setZero();
        for (tensor_size_t i = 0; i < m; ++i) { for (tensor_size_t j = 0; j < n; ++j) { G(i, j) = U(rng); } }
        b.vector() = A.matrix() * xs.vector();
        for (tensor_size_t i = 0; i < m; ++i) { h(i) = (G.matrix().row(i) * xs.vector())(0) + 0.5; }
        for (tensor_size_t i = 0; i < n; ++i) { G(m + i, i) = 1.0; h(m + i) = 10.0; G(m + n + i, i) = -1.0; h(m + n + i) = 10.0; }
        auto Q = matrix_t{n, n};
        Q.matrix() = D.matrix().transpose() * D.matrix();
        const auto program = p > 0 ? make_quadratic(Q, c, make_equality(A, b), make_inequality(G, h)) : make_quadratic(Q, c, make_inequality(G, h));

        const auto solver = solver_t{};
        const auto state  = solver.solve(program, make_null_logger());
        if (state.m_status != solver_status::converged) { continue; }
        ++converged;
        // the residual fields the returned (x, u, v) really have, by the real program_t::update on the real normalised program
        const auto iprogram = solver_t::program_t{program};
        auto       again    = state;
        iprogram.update(again.m_x, again.m_u, again.m_v, solver.parameter("solver::miu").value<scalar_t>(), again);
        const auto same = same_bits(again.m_fx, state.m_fx) && same_bits(again.m_eta, state.m_eta) && same_bits(again.m_rdual, state.m_rdual) &&
                          same_bits(again.m_rprim, state.m_rprim) && same_bits(again.m_rcent, state.m_rcent);
        if (!same)
        {
            ++bad;
            const auto rel = std::fabs(again.m_fx - state.m_fx) / std::max(std::fabs(again.m_fx), 1e-300);
            worst          = std::max(worst, rel);
            if (shown++ < 3)
            {
                std::printf("{\"program\": \"generator seed %d (n=%d, p=%d, m=%d)\", \"iters\": %d, \"reported_fx\": %.17g, \"fx_at_returned_xuv\": %.17g, "
                            "\"reported_eta\": %.17g, \"eta_at_returned_xuv\": %.17g, \"rdual_norm_reported\": %.17g, \"rdual_norm_at_returned\": %.17g}\n",
                            t + 1, n, p, m, state.m_iters, state.m_fx, again.m_fx, state.m_eta, again.m_eta, state.m_rdual.lpNorm<2>(),
                            again.m_rdual.lpNorm<2>());
            }
        }
    }
    // documentation of the (tolerated) last-trial-point provenance; a violation is a disagreement beyond the property's 1e-6
    const auto violates = worst > 1e-6;
    std::printf("{\"programs\": %d, \"converged\": %d, \"residual_fields_bitwise_not_those_of_returned_point\": %d, "
                "\"worst_relative_fx_difference\": %g, \"violates\": %d}\n", max_programs, converged, bad, worst, violates ? 1 : 0);
    return violates ? 1 : 0;
}
} // namespace

int main(int argc, char* argv[])
{
    const auto mode = std::string{argc > 1 ? argv[1] : "done"};
    if (mode == "scale") { return replay_scale(); }
    if (mode == "noineq") { return replay_noineq(); }
    if (mode == "rescale") { return replay_rescale(); }
    if (mode == "stale") { return replay_stale(argc > 2 ? std::atoi(argv[2]) : 200); }
    return replay_done(argc, argv);
}
