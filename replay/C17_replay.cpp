// native replay for C17: runs the REAL pool_t::map (header + src/core/parallel.cpp of the working tree) with a recording
// operator and checks the property's sequential clauses on what was observed: the ranges tile [0, elements) exactly
// once (consecutive, non-empty, end = min(begin + chunksize, elements)), every worker id is below the pool size.
// usage: C17_replay <i64|u64|i32> <elements> <chunksize (0 = un-chunked map)> <threads>
#include <nano/core/parallel.h>
#include <algorithm>
#include <cstdio>
#include <cstdlib>
#include <cstring>
#include <mutex>
#include <vector>

template <class tsize>
int run(const long long elements_, const long long chunk_, const size_t threads)
{
    const auto elements = static_cast<tsize>(elements_);
    const auto chunk    = static_cast<tsize>(chunk_);
    struct rec_t { tsize begin, end; size_t tnum; };
    std::vector<rec_t> recs;
    std::mutex         mutex;
    nano::parallel::pool_t pool(threads);
    if (chunk_ > 0 && elements_ > 0 && (elements_ - 1) / chunk_ > 4000000LL) { std::printf("{\"skipped\": \"too many ranges\"}\n"); return 0; }
    if (chunk_ == 0 && elements_ > 4000000LL) { std::printf("{\"skipped\": \"too many indices\"}\n"); return 0; }
    if (chunk_ > 0)
    {
        pool.map(elements, chunk, [&](tsize begin, tsize end, size_t tnum) { const std::scoped_lock lock(mutex); recs.push_back({begin, end, tnum}); });
    }
    else
    {
        pool.map(elements, [&](tsize index, size_t tnum) { const std::scoped_lock lock(mutex); recs.push_back({index, static_cast<tsize>(index + 1), tnum}); });
    }
    std::sort(recs.begin(), recs.end(), [](const rec_t& a, const rec_t& b) { return a.begin < b.begin; });
    bool ok = true;
    tsize covered = 0;
    const char* why = "";
    for (const auto& r : recs)
    {
        if (r.begin != covered) { ok = false; why = "range does not start where the previous one ended"; break; }
        if (!(r.begin < r.end)) { ok = false; why = "empty range"; break; }
        const tsize step = chunk_ > 0 ? chunk : tsize(1);
        if (!(r.end <= elements && r.end - r.begin <= step && (r.end - r.begin == step || r.end == elements))) { ok = false; why = "end != min(begin + chunksize, elements)"; break; }
        if (!(r.tnum < pool.size())) { ok = false; why = "worker id not below the pool size"; break; }
        covered = r.end;
    }
    if (ok && covered != (elements_ > 0 ? elements : tsize(0))) { ok = false; why = "[0, elements) not covered"; }
    std::printf("{\"pool_size\": %zu, \"ranges\": %zu, \"covered_upto\": %lld, \"ok\": %s, \"why\": \"%s\"}\n", pool.size(), recs.size(),
                static_cast<long long>(covered), ok ? "true" : "false", why);
    return ok ? 0 : 1;
}

int main(int argc, char** argv)
{
    if (argc != 5) return 2;
    const long long elements = std::strtoll(argv[2], nullptr, 10), chunk = std::strtoll(argv[3], nullptr, 10);
    const auto threads = static_cast<size_t>(std::strtoull(argv[4], nullptr, 10));
    if (!std::strcmp(argv[1], "i64")) return run<long>(elements, chunk, threads);
    if (!std::strcmp(argv[1], "u64")) return run<unsigned long>(elements, chunk, threads);
    if (!std::strcmp(argv[1], "i32")) return run<int>(elements, chunk, threads);
    return 2;
}
