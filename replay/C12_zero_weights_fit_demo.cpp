// C12 demonstration through the PUBLIC API: gboost_model_t::fit with the cauchy loss, subsample = wei_loss_bootstrap and
// gboost::epsilon = 1e-12 on a dataset the model fits (almost) exactly.  When the driver is linked with src/core/sampling.cpp compiled
// with -D_GLIBCXX_ASSERTIONS (listed BEFORE the static libraries, so that this object is the one the linker keeps), libstdc++ aborts
// inside std::discrete_distribution with "Assertion '__sum > 0' failed" as soon as the sampler is handed all-zero weights.
// usage: C12_zero_weights_fit_demo [epsilon] [loss] [slope]      exit 0 = fit returned normally; target = slope * x - 0.3
// (slope 0: a constant target, fitted by the bias alone to the precision of the solver)
#include <nano/dataset.h>
#include <nano/datasource.h>
#include <nano/gboost/enums.h>
#include <nano/gboost/model.h>
#include <nano/generator/elemwise_identity.h>
#include <nano/logger.h>
#include <nano/loss.h>
#include <nano/splitter.h>
#include <nano/wlearner.h>
#include <cstdio>
#include <cstdlib>

using namespace nano;

class affine_datasource_t final : public datasource_t
{
public:
    affine_datasource_t(const tensor_size_t samples, const scalar_t slope)
        : datasource_t("c12-affine")
        , m_samples(samples)
        , m_slope(slope)
    {
    }

    rdatasource_t clone() const override { return std::make_unique<affine_datasource_t>(*this); }

private:
    void do_load() override
    {
        const auto features = features_t{feature_t{"x"}.scalar(feature_type::float64), feature_t{"y"}.scalar(feature_type::float64)};
        resize(m_samples, features, 1U);
        for (tensor_size_t sample = 0; sample < m_samples; ++sample)
        {
            const auto x = -1.0 + 2.0 * static_cast<scalar_t>(sample) / static_cast<scalar_t>(m_samples);
            set(sample, 0, x);
            set(sample, 1, m_slope * x - 0.3);
        }
    }

    tensor_size_t m_samples{0};
    scalar_t      m_slope{0.5};
};

int main(int argc, char** argv)
{
    const auto epsilon  = argc > 1 ? std::atof(argv[1]) : 1e-12;
    const auto lossname = argc > 2 ? argv[2] : "cauchy";

    const auto slope = argc > 3 ? std::atof(argv[3]) : 0.0;
    auto datasource = affine_datasource_t{100, slope};
    datasource.load();
    auto dataset = dataset_t{datasource};
    dataset.add<scalar_identity_generator_t>();

    const auto loss = loss_t::all().get(lossname);
    auto splitter   = splitter_t::all().get("k-fold");
    splitter->parameter("splitter::folds") = 2;

    auto model = gboost_model_t{};
    model.parameter("gboost::max_rounds")      = 20;
    model.parameter("gboost::patience")        = 5;
    model.parameter("gboost::epsilon")         = epsilon;
    model.parameter("gboost::subsample")       = gboost_subsample::wei_loss_bootstrap;
    model.parameter("gboost::subsample_ratio") = 1.0;
    auto prototypes = rwlearners_t{};
    prototypes.emplace_back(wlearner_t::all().get("affine"));
    model.prototypes(std::move(prototypes));

    std::printf("fitting: loss=%s gboost::epsilon=%g subsample=wei_loss_bootstrap ...\n", lossname, epsilon);
    std::fflush(stdout);
    const auto samples = arange(0, dataset.samples());
    const auto result  = model.fit(dataset, samples, *loss, ml::params_t{}.splitter(*splitter).logger(std::getenv("C12_LOG") ? make_stdout_logger() : logger_t{}));
    std::printf("fit returned normally: %ld weak learner(s)\n", static_cast<long>(model.wlearners().size()));
    return 0;
}
