// native replay for the C03 ellipsoid obligations (specs/C03/ellipsoid_num.py): centre / shape / bisection.
//
// The REAL ellipsoid solver minimises a fixed convex function with a SPY function_t that records every evaluation (x_k, f_k, g_k).
// From the recorded evaluations alone the driver re-runs the TEXTBOOK recurrence
//   n >= 2 (deep cut):  alpha = (f_k - min_{j<=k} f_j) / sqrt(g'Hg),
//                       x+ = x - (1 + n alpha) / (n + 1) * H g / sqrt(g'Hg),
//                       H+ = n^2 / (n^2 - 1) (1 - alpha^2) (H - 2 (1 + n alpha) / ((n + 1)(1 + alpha)) H g g' H / (g'Hg)),   H_0 = R^2 I
//   n == 1 (bisection): x+ = x + H if g < 0 else x - H,  H+ = H / 2,  H_0 = R
// (both from the OLD H) and compares the next evaluation point it predicts with the one the solver really used.  A wrong centre shows at the
// first step, a wrong shape matrix at the second.  A mismatch is a replayed violation (exit 1).  usage: C03_ellipsoid_replay
#include <nano/function.h>
#include <nano/solver.h>
#include <cmath>
#include <cstdio>
#include <vector>

using namespace nano;
using Vec = Eigen::VectorXd;
using Mat = Eigen::MatrixXd;

namespace
{
struct record_t
{
    Vec    x, g;
    double f;
};

std::vector<record_t> records;

// f(x) = 0.5 (x - c)' A (x - c) + |x - c|_1: convex, non-smooth at the minimiser c
struct spy_t final : public function_t
{
    explicit spy_t(const int n)
        : function_t("replay-convex", n)
        , m_A(Mat::Zero(n, n))
        , m_c(Vec::Zero(n))
    {
        convex(convexity::yes);
        smooth(smoothness::no);
        for (int i = 0; i < n; ++i)
        {
            m_A(i, i) = 1.0 + 2.0 * i;
            m_c(i)    = 0.7 - 0.9 * i;
        }
        if (n > 1)
        {
            m_A(0, 1) = m_A(1, 0) = 0.5;
        }
    }

    rfunction_t clone() const override { return std::make_unique<spy_t>(*this); }

    scalar_t do_vgrad(vector_cmap_t x, vector_map_t gx) const override
    {
        const Vec    d = x.vector() - m_c;
        const Vec    g = m_A * d + d.array().sign().matrix();
        const double f = 0.5 * d.dot(m_A * d) + d.lpNorm<1>();
        if (gx.size() == x.size())
        {
            gx.vector() = g;
            records.push_back({x.vector(), g, f});
        }
        return f;
    }

    Mat m_A;
    Vec m_c;
};

int replay(const int n, const int steps)
{
    records.clear();
    const auto f      = spy_t{n};
    auto       solver = solver_t::all().get("ellipsoid");
    const auto R      = 7.0;
    solver->parameter("solver::ellipsoid::R") = R;
    solver->parameter("solver::epsilon")      = 1e-12;
    solver->parameter("solver::max_evals")    = 2 * (steps + 1);
    auto x0 = vector_t{n};
    for (int i = 0; i < n; ++i)
    {
        x0(i) = -1.5 + 1.1 * i;
    }
    solver->minimize(f, x0, make_null_logger());

    if (records.size() < 3)
    {
        std::printf("n=%d: only %zu evaluations were recorded\n", n, records.size());
        return 2;
    }
    const double nn = n;
    Mat          H  = Mat::Identity(n, n) * (n == 1 ? R : R * R);
    double       fb = records[0].f;
    int          bad = 0;
    for (size_t k = 0; k + 1 < records.size() && static_cast<int>(k) < steps; ++k)
    {
        const auto& r   = records[k];
        fb              = std::min(fb, r.f);
        const auto gHg  = r.g.dot(H * r.g);
        Vec        xn;
        Mat        Hn;
        if (n == 1)
        {
            xn = r.x + Vec::Constant(1, H(0, 0) * (r.g(0) < 0.0 ? +1.0 : -1.0));
            Hn = H / 2.0;
        }
        else
        {
            const auto alpha = (r.f - fb) / std::sqrt(gHg);
            xn               = r.x - (1.0 + nn * alpha) / (nn + 1.0) * (H * r.g) / std::sqrt(gHg);
            Hn = nn * nn / (nn * nn - 1.0) * (1.0 - alpha * alpha) *
                 (H - 2.0 * (1.0 + nn * alpha) / ((nn + 1.0) * (1.0 + alpha)) * (H * r.g) * (r.g.transpose() * H) / gHg);
        }
        const auto err = (xn - records[k + 1].x).lpNorm<Eigen::Infinity>();
        const auto tol = 1e-9 * (1.0 + xn.lpNorm<Eigen::Infinity>());
        if (!(err <= tol))
        {
            ++bad;
            std::printf("n=%d iteration %zu: the solver evaluated at (", n, k);
            for (int i = 0; i < n; ++i)
            {
                std::printf("%s%.12g", i ? ", " : "", records[k + 1].x(i));
            }
            std::printf(") but the textbook update of the recorded (x, f, g) gives (");
            for (int i = 0; i < n; ++i)
            {
                std::printf("%s%.12g", i ? ", " : "", xn(i));
            }
            std::printf("), difference %.3g\n", err);
            if (bad >= 3)
            {
                break;
            }
        }
        H = Hn;
    }
    std::printf("n=%d: %zu evaluations, %d of the first %d steps differ from the textbook update\n", n, records.size(), bad, steps);
    return bad > 0 ? 1 : 0;
}
} // namespace

int main()
{
    int rc = 0;
    for (const int n : {1, 2, 3})
    {
        const auto r = replay(n, 12);
        rc           = (r == 1) ? 1 : (rc == 1 ? 1 : std::max(rc, r));
    }
    return rc;
}
