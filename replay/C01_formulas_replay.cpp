// native replay for the C01 update-formula obligations (specs/C01/quasi.py, lbfgs.py, cgd.py).
//
// The real solvers (lbfgs, bfgs / dfp / sr1 / hoshino / fletcher, cgd-*) minimise a fixed strongly convex quadratic
// f(x) = 0.5 x'Ax + b'x (n = 5, anisotropic) with a SPY line search handed in through solver_t::lsearchk(const lsearchk_t&):
// its do_get records exactly what the contracts observe -- the state (x, g) the line search starts from and the direction d it
// is handed -- and then takes 0.6 x the exact minimising step along d (dx.dg = dx'A dx > 0, every iteration continues).
// The driver recomputes the TEXTBOOK direction from the recorded states only:
//   lbfgs      d_k = -H_k g_k, H_k the L-BFGS matrix of the last `history` pairs (s_i, y_i), H^0 = (s.y / y.y) I   [N&W (7.19), (7.20)]
//   quasi      d_k = -H_k g_k, H_0 = I, H_k+1 = textbook SR1 (with skipping rule) / DFP / BFGS / Hoshino / Fletcher update of H_k
//   cgd-*      d_0 = -g_0, d_k = -g_k + beta_k d_k-1 (textbook beta of the variant), or -g_k when the restart test fires
// and compares it with the recorded one.  A mismatch is a replayed violation (exit 1): the concrete iteration, the recorded and the
// textbook direction are printed.  usage: C01_formulas_replay [lbfgs|quasi|cgd|all]
#include <nano/function.h>
#include <nano/lsearchk.h>
#include <nano/solver.h>
#include <cmath>
#include <cstdio>
#include <cstring>
#include <string>
#include <vector>

using namespace nano;
using Vec = Eigen::VectorXd;
using Mat = Eigen::MatrixXd;

namespace
{
constexpr int N = 5;

Mat make_A()
{
    Mat A = Mat::Zero(N, N);
    const double diag[N] = {40.0, 9.0, 3.0, 1.0, 0.25};
    for (int i = 0; i < N; ++i)
    {
        A(i, i) = diag[i];
    }
    for (int i = 0; i + 1 < N; ++i)
    {
        A(i, i + 1) = A(i + 1, i) = 0.3 * std::sqrt(diag[i] * diag[i + 1]);
    }
    return A;
}

Vec make_b()
{
    Vec b(N);
    b << 1.0, -2.0, 0.5, 3.0, -1.5;
    return b;
}

const Mat A = make_A();
const Vec b = make_b();

struct quadratic_t final : public function_t
{
    quadratic_t()
        : function_t("replay-quadratic", N)
    {
        convex(convexity::yes);
        smooth(smoothness::yes);
    }

    rfunction_t clone() const override { return std::make_unique<quadratic_t>(*this); }

    scalar_t do_vgrad(vector_cmap_t x, vector_map_t gx) const override
    {
        const Vec xv = x.vector();
        const Vec g  = A * xv + b;
        if (gx.size() == x.size())
        {
            gx.vector() = g;
        }
        return 0.5 * xv.dot(A * xv) + b.dot(xv);
    }
};

struct record_t
{
    Vec x, g, d;
};

std::vector<record_t> records;

struct spy_t final : public lsearchk_t
{
    spy_t()
        : lsearchk_t("spy")
    {
        type(lsearch_type::strong_wolfe);
    }

    rlsearchk_t clone() const override { return std::make_unique<spy_t>(*this); }

    result_t do_get(const solver_state_t& state0, const vector_t& descent, scalar_t, solver_state_t& state,
                    const logger_t& logger) const override
    {
        const Vec x = state0.x().vector(), g = state0.gx().vector(), d = descent.vector();
        records.push_back({x, g, d});
        // 0.6 x the exact minimiser along the ray: with EXACT line searches on a quadratic every quasi-Newton update of the Broyden
        // family generates the conjugate-gradient directions whatever the rank-one terms are scaled with (Dixon's theorem)
        const auto t  = -0.6 * g.dot(d) / d.dot(A * d);
        const auto ok = update(state, state0, descent, t, logger);
        return {ok, t};
    }
};

Mat lbfgs_matrix(const std::vector<Vec>& ss, const std::vector<Vec>& ys)
{
    const auto& sl = ss.back();
    const auto& yl = ys.back();
    Mat         H  = Mat::Identity(N, N) * (sl.dot(yl) / yl.dot(yl));
    for (size_t i = 0; i < ss.size(); ++i)
    {
        const double rho = 1.0 / ys[i].dot(ss[i]);
        const Mat    V   = Mat::Identity(N, N) - rho * ys[i] * ss[i].transpose();
        H                = V.transpose() * H * V + rho * ss[i] * ss[i].transpose();
    }
    return H;
}

Mat tb_bfgs(const Mat& H, const Vec& dx, const Vec& dg)
{
    const double r = 1.0 / dg.dot(dx);
    const Mat    I = Mat::Identity(N, N);
    return (I - r * dx * dg.transpose()) * H * (I - r * dg * dx.transpose()) + r * dx * dx.transpose();
}

Mat tb_dfp(const Mat& H, const Vec& dx, const Vec& dg)
{
    const Vec Hg = H * dg;
    return H + dx * dx.transpose() / dx.dot(dg) - Hg * (H.transpose() * dg).transpose() / dg.dot(Hg);
}

Mat tb_sr1(const Mat& H, const Vec& dx, const Vec& dg)
{
    const Vec v = dx - H * dg;
    return H + v * v.transpose() / v.dot(dg);
}

Mat tb_update(const std::string& id, const Mat& H, const Vec& dx, const Vec& dg, const double r)
{
    const double dxdg = dx.dot(dg), gHg = dg.dot(H * dg);
    if (id == "bfgs")
    {
        return tb_bfgs(H, dx, dg);
    }
    if (id == "dfp")
    {
        return tb_dfp(H, dx, dg);
    }
    if (id == "sr1")
    {
        const Vec v = dx - H * dg;
        return (std::fabs(v.dot(dg)) >= r * dx.norm() * v.norm()) ? tb_sr1(H, dx, dg) : H;
    }
    if (id == "hoshino")
    {
        const double t = dxdg / (dxdg + gHg);
        return (1.0 - t) * tb_dfp(H, dx, dg) + t * tb_bfgs(H, dx, dg);
    }
    const double p = dxdg / (dxdg - gHg); // fletcher
    return (p < 0.0) ? tb_dfp(H, dx, dg) : (p > 1.0) ? tb_bfgs(H, dx, dg) : tb_sr1(H, dx, dg);
}

double tb_beta(const std::string& id, const Vec& pg, const Vec& pd, const Vec& cg, const double eta)
{
    const Vec  y  = cg - pg;
    const auto HS = cg.dot(y) / pd.dot(y), FR = cg.dot(cg) / pg.dot(pg), PR = cg.dot(y) / pg.dot(pg);
    const auto CD = -cg.dot(cg) / pd.dot(pg), LS = -cg.dot(y) / pd.dot(pg), DY = cg.dot(cg) / pd.dot(y);
    if (id == "cgd-hs")
    {
        return std::max(HS, 0.0);
    }
    if (id == "cgd-fr")
    {
        return FR;
    }
    if (id == "cgd-pr")
    {
        return std::max(PR, 0.0);
    }
    if (id == "cgd-cd")
    {
        return CD;
    }
    if (id == "cgd-ls")
    {
        return std::max(LS, 0.0);
    }
    if (id == "cgd-dy")
    {
        return DY;
    }
    if (id == "cgd-dyhs")
    {
        return std::max(0.0, std::min(DY, HS));
    }
    if (id == "cgd-dycd")
    {
        return cg.dot(cg) / std::max(pd.dot(y), -pd.dot(pg));
    }
    if (id == "cgd-frpr")
    {
        return (PR < -FR) ? -FR : (std::fabs(PR) <= FR) ? PR : FR;
    }
    // cgd-n
    const auto dy   = pd.dot(y);
    const auto bn   = (y - 2.0 * pd * y.dot(y) / dy).dot(cg) / dy;
    const auto etak = -1.0 / (pd.norm() * std::min(eta, pg.norm()));
    return std::max(etak, bn);
}

bool close(const Vec& a, const Vec& c)
{
    return (a - c).norm() <= 1e-7 * std::max(a.norm(), c.norm());
}

int report(const std::string& id, const size_t k, const Vec& got, const Vec& want, const char* what)
{
    std::printf("VIOLATION solver=%s iteration=%zu: the direction handed to the line search is not %s\n  recorded d = [", id.c_str(),
                k, what);
    for (int i = 0; i < N; ++i)
    {
        std::printf("%s%.10g", i ? ", " : "", got(i));
    }
    std::printf("]\n  textbook d = [");
    for (int i = 0; i < N; ++i)
    {
        std::printf("%s%.10g", i ? ", " : "", want(i));
    }
    std::printf("]\n  (quadratic 0.5 x'Ax + b'x, n = %d, x0 = (1, .., 1); states recorded by the spy line search)\n", N);
    return 1;
}

void run(const std::string& id, const size_t history)
{
    records.clear();
    auto solver = solver_t::all().get(id);
    solver->lsearchk(spy_t{});
    solver->parameter("solver::epsilon")   = 1e-14;
    solver->parameter("solver::max_evals") = 60;
    if (id == "lbfgs")
    {
        solver->parameter("solver::lbfgs::history") = static_cast<int>(history);
    }
    quadratic_t f;
    vector_t    x0(N);
    x0.full(1.0);
    solver->minimize(f, x0, make_null_logger());
}

int check_lbfgs(const size_t history)
{
    run("lbfgs", history);
    int bad = 0;
    for (size_t k = 0; k < records.size() && k < 7 && !bad; ++k)
    {
        std::vector<Vec> ss, ys;
        for (size_t i = (k > history ? k - history : 0); i < k; ++i)
        {
            ss.push_back(records[i + 1].x - records[i].x);
            ys.push_back(records[i + 1].g - records[i].g);
        }
        const Vec want = ss.empty() ? Vec(-records[k].g) : Vec(-(lbfgs_matrix(ss, ys) * records[k].g));
        if (!close(records[k].d, want))
        {
            bad += report("lbfgs(history=" + std::to_string(history) + ")", k, records[k].d, want,
                          "-H_k g (L-BFGS matrix of the stored pairs, initial scaling s.y / y.y)");
        }
    }
    std::printf("lbfgs history=%zu: %zu line searches recorded, %s\n", history, records.size(), bad ? "MISMATCH" : "directions match -H_k g");
    return bad;
}

int check_quasi(const std::string& id)
{
    run(id, 0);
    const auto r   = (id == "sr1") ? solver_t::all().get(id)->parameter("solver::quasi::sr1::r").value<scalar_t>() : 0.0;
    Mat        H   = Mat::Identity(N, N);
    int        bad = 0;
    for (size_t k = 0; k < records.size() && k < 6 && !bad; ++k)
    {
        if (k > 0)
        {
            H = tb_update(id, H, records[k].x - records[k - 1].x, records[k].g - records[k - 1].g, r);
        }
        Vec want = -(H * records[k].g);
        if (!(want.dot(records[k].g) < 0.0))
        {
            want = -records[k].g;
            H    = Mat::Identity(N, N);
        }
        if (!close(records[k].d, want))
        {
            bad += report(id, k, records[k].d, want, "-H g with H the textbook update (secant equation H+ dg = dx) of the previous H");
        }
    }
    std::printf("%s: %zu line searches recorded, %s\n", id.c_str(), records.size(), bad ? "MISMATCH" : "directions match -H g");
    return bad;
}

int check_cgd(const std::string& id)
{
    run(id, 0);
    const auto solver    = solver_t::all().get(id);
    const auto orthotest = solver->parameter("solver::cgd::orthotest").value<scalar_t>();
    const auto eta       = (id == "cgd-n") ? solver->parameter("solver::cgdN::eta").value<scalar_t>() : 0.0;
    int        bad       = 0;
    for (size_t k = 0; k < records.size() && k < 6 && !bad; ++k)
    {
        const Vec& g = records[k].g;
        if (k == 0)
        {
            if (!close(records[k].d, -g))
            {
                bad += report(id, k, records[k].d, -g, "-g in the first iteration");
            }
            continue;
        }
        const Vec &pg = records[k - 1].g, &pd = records[k - 1].d;
        const Vec  cand    = -g + tb_beta(id, pg, pd, g, eta) * pd;
        const auto lhs     = std::fabs(g.dot(pg)), rhs = orthotest * g.dot(g);
        const bool restart = !(cand.dot(g) < 0.0) || lhs >= rhs;
        const bool tie     = std::fabs(lhs - rhs) <= 1e-9 * std::max(lhs, rhs);
        const Vec  want    = restart ? Vec(-g) : cand;
        if (!close(records[k].d, want) && !(tie && (close(records[k].d, cand) || close(records[k].d, -g))))
        {
            bad += report(id, k, records[k].d, want, "-g + beta d_prev with the textbook beta (or -g when the restart test fires)");
        }
    }
    std::printf("%s: %zu line searches recorded, %s\n", id.c_str(), records.size(), bad ? "MISMATCH" : "directions match");
    return bad;
}
} // namespace

int main(int argc, char* argv[])
{
    const std::string what = argc > 1 ? argv[1] : "all";
    int               bad  = 0;
    if (what == "lbfgs" || what == "all")
    {
        bad += check_lbfgs(1);
        bad += check_lbfgs(2);
        bad += check_lbfgs(4);
    }
    if (what == "quasi" || what == "all")
    {
        for (const auto* id : {"bfgs", "dfp", "sr1", "hoshino", "fletcher"})
        {
            bad += check_quasi(id);
        }
    }
    if (what == "cgd" || what == "all")
    {
        for (const auto* id : {"cgd-hs", "cgd-fr", "cgd-pr", "cgd-cd", "cgd-ls", "cgd-dy", "cgd-n", "cgd-dycd", "cgd-dyhs", "cgd-frpr"})
        {
            bad += check_cgd(id);
        }
    }
    return bad ? 1 : 0;
}
