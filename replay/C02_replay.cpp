// native replay for C01/C02: runs the real solvers on a scripted function that drives solver_t::done down the verifier's
// path "convergence test holds on a state that is not valid" (finite value and gradient at x0, +inf with a zero
// gradient everywhere else) and evaluates the properties' own postconditions on the returned state:
//   status != failed  =>  value and point finite;   status == converged => recomputed max|g|/max(1,|f|) < epsilon
//   reported value == function value at the returned point
#include <nano/function.h>
#include <nano/solver.h>
#include <cmath>
#include <cstdio>
using namespace nano;
struct cliff_t final : public function_t
{
    cliff_t() : function_t("cliff", 2) { convex(convexity::no); smooth(smoothness::yes); }
    rfunction_t clone() const override { return std::make_unique<cliff_t>(*this); }
    scalar_t    do_vgrad(vector_cmap_t x, vector_map_t gx) const override
    {
        const bool at0 = (x(0) == 1.0 && x(1) == 1.0);
        if (gx.size() == x.size()) { gx(0) = at0 ? 1.0 : 0.0; gx(1) = at0 ? 1.0 : 0.0; }
        return at0 ? 1.0 : std::numeric_limits<scalar_t>::infinity();
    }
};
int main()
{
    int bad = 0, n = 0;
    std::printf("[");
    for (const auto& id : {"gd", "cgd-pr", "lbfgs", "bfgs"})
    {
        auto solver = solver_t::all().get(id);
        cliff_t  f;
        vector_t x0(2);
        x0(0) = 1.0; x0(1) = 1.0;
        const auto state   = solver->minimize(f, x0, make_null_logger());
        const auto epsilon = solver->parameter("solver::epsilon").value<scalar_t>();
        vector_t   g(2);
        const auto fx    = f.vgrad(state.x(), g);
        const auto gtest = g.lpNorm<Eigen::Infinity>() / std::max(1.0, std::fabs(fx));
        const bool finite = std::isfinite(state.fx()) && state.x().all_finite();
        const bool v1 = state.status() != solver_status::failed && !finite;
        const bool v2 = state.status() == solver_status::converged && !(gtest < epsilon) ;
        const bool v3 = !(state.fx() == fx);
        bad += (v1 || v2 || v3) ? 1 : 0;
        std::printf("%s{\"solver\": \"%s\", \"status\": %d, \"fx\": %g, \"finite\": %d, \"recomputed_gtest\": %g, \"violates_finite\": %d, \"violates_converged\": %d, \"violates_value\": %d}",
                    n++ ? ", " : "", id, static_cast<int>(state.status()), state.fx(), finite ? 1 : 0, gtest, v1, v2, v3);
    }
    std::printf("]\n");
    return bad ? 1 : 0;
}
