// sample_with_replacement(samples, weights, count, rng) with ALL-ZERO weights (and with a NaN weight): what is returned?
#include <nano/core/sampling.h>
#include <cstdio>
#include <cmath>
using namespace nano;
static void run(const char* what, const tensor1d_t& weights, uint64_t seed)
{
    indices_t samples{weights.size()};
    for (tensor_size_t i = 0; i < samples.size(); ++i) samples(i) = 10 + i;
    auto rng = make_rng(seed);
    const auto sel = sample_with_replacement(samples, weights, 12, rng);
    std::printf("%-28s seed=%lu ->", what, (unsigned long)seed);
    for (tensor_size_t i = 0; i < sel.size(); ++i) std::printf(" %ld", (long)sel(i));
    std::printf("\n");
}
int main()
{
    tensor1d_t w{5};
    for (uint64_t seed : {1, 42, 1024})
    {
        w.full(0.0);                         run("all weights 0", w, seed);
        w.full(0.0); w(3) = 1e-300;          run("one weight 1e-300", w, seed);
        w.full(1.0);                         run("all weights 1", w, seed);
        w.full(1.0); w(1) = std::nan("");    run("weights 1, one NaN", w, seed);
        w.full(1e308);                       run("all weights 1e308 (sum=inf)", w, seed);
    }
    return 0;
}
