// native replay for C13: evaluates the property's own postconditions on the REAL library objects.
//   tuner : real tuner_t::optimize (local-search tuner; `surrogate` too, informational) with a recording callback on
//           1..3 grids, adversarial landscapes (plateaus, ties, minima at corners), several max_evals:
//           only grid points, no point twice, at most max_evals + 3^d points, steps sorted, first == minimum observed,
//           a non-finite value => exception.
//   result: real ml::result_t through its public API: values stored with store(trial, fold, ..) are read back by
//           stats(trial, fold, ..)/extra(trial, fold) after further add()s and stores to other (trial, fold), value() is
//           the mean across folds, optimum_trial() is the least index attaining the minimum.
//   paths : (informational, not part of the exit code) does log_path(trial, fold) carry the label of (trial, fold)?
// usage: C13_replay [tuner|result|paths|all]     exit 1 iff a postcondition is violated on the real code
#include <nano/machine/result.h>
#include <nano/tuner.h>
#include <nano/tuner/util.h>
#include <any>
#include <cmath>
#include <cstdio>
#include <cstring>
#include <set>
#include <string>
#include <vector>
using namespace nano;

static int bad = 0;
static void check(const bool ok, const char* what, const std::string& ctx)
{
    if (!ok)
    {
        ++bad;
        std::printf("{\"violated\": \"%s\", \"context\": \"%s\"}\n", what, ctx.c_str());
    }
}

static param_spaces_t make_spaces(const int d, const int size0)
{
    param_spaces_t spaces;
    for (int i = 0; i < d; ++i)
    {
        const auto n = static_cast<tensor_size_t>(size0 + 3 * i);
        tensor1d_t values(n);
        for (tensor_size_t k = 0; k < n; ++k)
        {
            values(k) = (i % 2 == 0) ? std::pow(10.0, static_cast<double>(k) - 3.0) : 0.1 + 0.25 * static_cast<double>(k);
        }
        spaces.emplace_back("p" + std::to_string(i), (i % 2 == 0) ? param_space_t::type::log10 : param_space_t::type::linear, values);
    }
    return spaces;
}

static double landscape(const int kind, const tensor2d_t& params, const tensor_size_t row, const param_spaces_t& spaces)
{
    double v = 0.0;
    for (tensor_size_t c = 0; c < params.size<1>(); ++c)
    {
        const auto& grid = spaces[static_cast<size_t>(c)].values();
        tensor_size_t k  = 0;
        while (k < grid.size() && grid(k) != params(row, c)) ++k;
        const auto x = static_cast<double>(k), n = static_cast<double>(grid.size());
        switch (kind)
        {
        case 0: v += (x - 1.0) * (x - 1.0); break;           // bowl near a corner
        case 1: v += 0.0; break;                             // plateau: all ties
        case 2: v += (n - 1.0 - x); break;                   // minimum at the far corner
        case 3: v += std::fmod(x * 7.0, 5.0); break;         // rugged
        default: v += std::floor(x / 3.0); break;            // plateaus with steps
        }
    }
    return v;
}

static void run_tuner(const char* id, const int d, const int size0, const int kind, const int max_evals, const int nan_at)
{
    const auto ctx = std::string(id) + " d=" + std::to_string(d) + " size0=" + std::to_string(size0) + " kind=" + std::to_string(kind) +
                     " max_evals=" + std::to_string(max_evals) + " nan_at=" + std::to_string(nan_at);
    const auto spaces = make_spaces(d, size0);
    auto       tuner  = tuner_t::all().get(id);
    tuner->parameter("tuner::max_evals") = max_evals;

    std::set<std::vector<double>> seen;
    int                           points = 0, repeats = 0, offgrid = 0;
    double                        minimum = std::numeric_limits<double>::infinity();
    const auto callback = [&](const tensor2d_t& params)
    {
        tensor1d_t values(params.size<0>());
        for (tensor_size_t r = 0; r < params.size<0>(); ++r)
        {
            std::vector<double> key;
            for (tensor_size_t c = 0; c < params.size<1>(); ++c)
            {
                const auto& grid = spaces[static_cast<size_t>(c)].values();
                bool        on   = false;
                for (tensor_size_t k = 0; k < grid.size(); ++k) on = on || grid(k) == params(r, c);
                offgrid += on ? 0 : 1;
                key.push_back(params(r, c));
            }
            repeats += seen.insert(key).second ? 0 : 1;
            ++points;
            values(r) = (points == nan_at) ? std::numeric_limits<double>::quiet_NaN() : landscape(kind, params, r, spaces);
            if (std::isfinite(values(r))) minimum = std::min(minimum, values(r));
        }
        return values;
    };
    bool          thrown = false;
    tuner_steps_t steps;
    try
    {
        steps = tuner->optimize(spaces, callback, make_null_logger());
    }
    catch (const std::exception&)
    {
        thrown = true;
    }
    const auto budget = max_evals + static_cast<int>(std::pow(3.0, d));
    check(offgrid == 0, "only points of the given grids are evaluated", ctx);
    check(repeats == 0, "no grid point is evaluated twice", ctx);
    check(points <= budget, "at most max_evals + 3^d points are evaluated", ctx);
    check(thrown == (nan_at > 0 && nan_at <= points), "a non-finite value is rejected with an exception (and only then)", ctx);
    if (!thrown)
    {
        check(static_cast<int>(steps.size()) == points, "the returned steps are exactly the evaluations", ctx);
        bool sorted = true;
        for (size_t i = 1; i < steps.size(); ++i) sorted = sorted && !(steps[i].m_value < steps[i - 1].m_value);
        check(sorted, "the returned steps are sorted by value", ctx);
        check(!steps.empty() && steps.front().m_value == minimum, "the first step is the minimum observed", ctx);
    }
}

static tensor2d_t make_values(const double error, const double loss, const tensor_size_t samples)
{
    tensor2d_t t(2, samples);
    for (tensor_size_t i = 0; i < samples; ++i)
    {
        t(0, i) = error;
        t(1, i) = loss;
    }
    return t;
}

static void run_result(const tensor_size_t folds, const tensor_size_t batch1, const tensor_size_t batch2)
{
    const auto ctx    = "folds=" + std::to_string(folds) + " trials=" + std::to_string(batch1) + "+" + std::to_string(batch2);
    const auto spaces = make_spaces(1, 4);
    auto       result = ml::result_t{spaces, folds};
    const auto code   = [&](const tensor_size_t t, const tensor_size_t f) { return static_cast<double>(100 * t + f); };
    tensor_size_t old = 0;
    for (const auto batch : {batch1, batch2})
    {
        tensor2d_t params(batch, 1);
        for (tensor_size_t t = 0; t < batch; ++t) params(t, 0) = static_cast<double>(old + t);
        result.add(params);
        check(result.trials() == old + batch && result.folds() == folds, "add(): trials() == old + new, folds() unchanged", ctx);
        // store in the order of the flat task index used by ml::tune, decoded as (index / folds, index % folds)
        for (tensor_size_t index = folds * batch; index-- > 0;)
        {
            const auto fold = index % folds, trial = index / folds;
            // folds of unequal sizes (k-fold with a remainder): the per-fold means must still weigh the same
            result.store(old + trial, fold, make_values(code(old + trial, fold) + 0.25, 1.0, 3 + fold), make_values(code(old + trial, fold), 2.0, 5 + 2 * fold),
                         std::any{static_cast<int>(code(old + trial, fold))});
        }
        old += batch;
        for (tensor_size_t t = 0; t < old; ++t)
        {
            double sum = 0.0;
            for (tensor_size_t f = 0; f < folds; ++f)
            {
                const auto st = result.stats(t, f, ml::split_type::valid, ml::value_type::errors);
                const auto sl = result.stats(t, f, ml::split_type::valid, ml::value_type::losses);
                const auto tt = result.stats(t, f, ml::split_type::train, ml::value_type::errors);
                check(st.m_mean == code(t, f) && sl.m_mean == 2.0 && tt.m_mean == code(t, f) + 0.25,
                      "stats(trial, fold, split, value) returns what store(trial, fold, ..) stored", ctx);
                const auto* extra = std::any_cast<int>(&result.extra(t, f));
                check(extra != nullptr && *extra == static_cast<int>(code(t, f)), "extra(trial, fold) returns what store(trial, fold, ..) stored", ctx);
                sum += st.m_mean;
            }
            check(std::fabs(result.value(t) - sum / static_cast<double>(folds)) < 1e-9, "value(trial) is the mean validation error across folds", ctx);
        }
        tensor_size_t best = 0;
        for (tensor_size_t t = 1; t < old; ++t) best = result.value(t) < result.value(best) ? t : best;
        check(result.optimum_trial() == best, "optimum_trial() is the least index attaining the smallest mean validation error", ctx);
    }
}

static int run_paths(const tensor_size_t folds, const tensor_size_t trials)
{
    auto       result = ml::result_t{make_spaces(1, 4), folds};
    tensor2d_t params(trials, 1);
    params.zero();
    result.add(params);
    int mismatches = 0;
    for (tensor_size_t t = 0; t < trials; ++t)
    {
        for (tensor_size_t f = 0; f < folds; ++f)
        {
            const auto  want = "fold" + std::to_string(f) + "_trial" + std::to_string(t) + ".log";
            const auto& path = result.log_path(t, f);
            const bool  ok   = path.size() >= want.size() && path.compare(path.size() - want.size(), want.size(), want) == 0;
            mismatches += ok ? 0 : 1;
            if (!ok && mismatches <= 3)
            {
                std::printf("{\"log_path\": \"(trial %d, fold %d) -> %s\"}\n", static_cast<int>(t), static_cast<int>(f), path.c_str());
            }
        }
    }
    std::printf("{\"log_path_label_mismatches\": %d, \"folds\": %d, \"trials\": %d}\n", mismatches, static_cast<int>(folds), static_cast<int>(trials));
    return mismatches;
}

// folds of unequal sizes: the value of a trial is the mean of the per-fold validation means (every fold the same weight),
// not the pooled per-sample mean; two trials whose ranking differs between the two
static void run_unequal_folds()
{
    const std::string ctx = "folds of 3, 3, 4 validation samples; trial 0 errors (.30,.30,.00), trial 1 errors (.10,.10,.35)";
    auto       result = ml::result_t{make_spaces(1, 4), 3};
    tensor2d_t params(2, 1);
    params.zero();
    result.add(params);
    const double        errors[2][3] = {{0.30, 0.30, 0.00}, {0.10, 0.10, 0.35}};
    const tensor_size_t sizes[3]     = {3, 3, 4};
    for (tensor_size_t t = 0; t < 2; ++t)
        for (tensor_size_t f = 0; f < 3; ++f) result.store(t, f, make_values(0.5, 0.5, 10 - sizes[f]), make_values(errors[t][f], 1.0, sizes[f]));
    for (tensor_size_t t = 0; t < 2; ++t)
    {
        const auto mean = (errors[t][0] + errors[t][1] + errors[t][2]) / 3.0;
        check(std::fabs(result.value(t) - mean) < 1e-12, "value(trial) is the mean across folds of the per-fold validation means (equal weights)", ctx);
        const auto vs = result.values(make_range(0, 2));
        check(std::fabs(vs(t) - mean) < 1e-12, "values(range)(trial) is value(trial)", ctx);
        for (tensor_size_t f = 0; f < 3; ++f)
        {
            const auto st = result.stats(t, f, ml::split_type::valid, ml::value_type::errors);
            check(std::fabs(st.m_mean - errors[t][f]) < 1e-12 && st.m_count == static_cast<double>(sizes[f]),
                  "stats(trial, fold, valid, errors) holds that fold's mean and sample count", ctx);
        }
    }
    check(result.optimum_trial() == 1, "optimum_trial() is the trial with the smallest mean validation error across folds", ctx);
}

// informational: optimum_trial() starts its running minimum at DBL_MAX, so a trial whose mean validation error is exactly
// DBL_MAX never wins against +inf
static void run_corner()
{
    auto       result = ml::result_t{make_spaces(1, 4), 1};
    tensor2d_t params(2, 1);
    params.zero();
    result.add(params);
    result.store(0, 0, make_values(0.0, 0.0, 1), make_values(std::numeric_limits<double>::infinity(), 0.0, 1));
    result.store(1, 0, make_values(0.0, 0.0, 1), make_values(std::numeric_limits<double>::max(), 0.0, 1));
    std::printf("{\"corner\": \"value(0)=%g value(1)=%g optimum_trial=%d\"}\n", result.value(0), result.value(1), static_cast<int>(result.optimum_trial()));
}

int main(int argc, char** argv)
{
    const std::string what = argc > 1 ? argv[1] : "all";
    if (what == "tuner" || what == "all")
    {
        for (const int d : {1, 2, 3})
            for (const int size0 : {2, 7, 31})
                for (const int kind : {0, 1, 2, 3, 4})
                    for (const int max_evals : {10, 37, 1000}) run_tuner("local-search", d, size0, kind, max_evals, 0);
        for (const int nan_at : {1, 2, 9}) run_tuner("local-search", 2, 7, 0, 100, nan_at);
    }
    if (what == "result" || what == "all")
    {
        for (const tensor_size_t folds : {1, 2, 3, 10})
            for (const tensor_size_t b1 : {1, 3, 9})
                for (const tensor_size_t b2 : {1, 4}) run_result(folds, b1, b2);
        run_unequal_folds();
    }
    if (what == "paths" || what == "all")
    {
        run_corner();
        run_paths(2, 3);
        run_paths(3, 3);
    }
    std::printf("{\"violations\": %d}\n", bad);
    return bad ? 1 : 0;
}
