// native replay for C08 (range guards): builds a real in-memory datasource with N samples (one int64 scalar feature and
// one single-label feature, every value given, as test/fixture/generator_datasource.h does), wraps it in a real
// dataset_t with identity generators and calls the public API with the sample index list {i} taken from the verifier's
// counterexample.  The property's own postcondition is evaluated natively:
//     an index outside [0, samples()) must be rejected with an exception (and never read).
// usage: C08_replay <N> <index>     exit 1: an out-of-range index was accepted (violation reproduced), exit 0 otherwise
//        C08_replay storage <C>     a C-class single-label feature next to a 3-class one: both per-feature views must equal
//                                   the stored labels (storage pools of different features must not alias)
//        C08_replay product         product features over int8 / uint32 / int32 / float32 sources must equal the product
//                                   of the two stored values taken in scalar_t
//        C08_replay flags           shuffle(f); drop(f) must leave f missing (drop/shuffle protocol)
//        C08_replay list <N> i0 i1 ..  an arbitrary (unsorted) sample list: rejected iff some entry is outside [0, N)
//        C08_replay feature <f>     a feature index outside [0, features()) must be rejected by feature() / select()
//        C08_replay onehot          scalar feature first, 3-class feature last: every flattened row must be
//                                   [value, one-hot(label) over 2 columns] (a label C-1 lights no column)
#include <nano/dataset.h>
#include <nano/generator/elemwise_identity.h>
#include <nano/generator/pairwise_product.h>
#include <cmath>
#include <cstring>
#include <sys/wait.h>
#include <unistd.h>
#include <cstdio>
#include <cstdlib>
using namespace nano;

class memory_datasource_t final : public datasource_t
{
public:
    explicit memory_datasource_t(const tensor_size_t samples)
        : datasource_t("replay")
        , m_samples(samples)
    {
    }

    rdatasource_t clone() const override { return std::make_unique<memory_datasource_t>(*this); }

private:
    void do_load() override
    {
        resize(m_samples, features_t{feature_t{"scalar"}.scalar(feature_type::int64),
                                     feature_t{"sclass"}.sclass(strings_t{"a", "b", "c"})});
        for (tensor_size_t sample = 0; sample < m_samples; ++sample)
        {
            set(sample, 0, 1000 + sample);
            set(sample, 1, sample % 3);
        }
    }

    tensor_size_t m_samples{0};
};

template <class toperator>
static int accepted(const char* what, tensor_size_t index, const toperator& op)
{
    try
    {
        op();
    }
    catch (const std::exception&)
    {
        std::printf("  %s: index %ld rejected with an exception\n", what, static_cast<long>(index));
        return 0;
    }
    std::printf("  %s: index %ld ACCEPTED (no exception)\n", what, static_cast<long>(index));
    return 1;
}

static int range_main(int argc, char* argv[])
{
    const auto N     = static_cast<tensor_size_t>(argc > 1 ? std::atol(argv[1]) : 16);
    const auto index = static_cast<tensor_size_t>(argc > 2 ? std::atol(argv[2]) : N);

    auto datasource = memory_datasource_t{N};
    datasource.load();
    auto dataset = dataset_t{datasource, 1U};
    dataset.add<scalar_identity_generator_t>();
    dataset.add<sclass_identity_generator_t>();

    indices_t samples(1);
    samples(0)           = index;
    const auto out_range = index < 0 || index >= dataset.samples();
    std::printf("samples()=%ld features()=%ld index=%ld (%s [0, samples()))\n", static_cast<long>(dataset.samples()),
                static_cast<long>(dataset.features()), static_cast<long>(index), out_range ? "outside" : "inside");

    int bad = 0;
    {
        tensor2d_t buffer;
        bad += accepted("flatten(samples)", index,
                        [&]()
                        {
                            const auto flatten = dataset.flatten(samples, buffer);
                            std::printf("    flattened row read for that index: [");
                            for (tensor_size_t c = 0; c < flatten.size<1>(); ++c)
                            {
                                std::printf("%s%g", c ? ", " : "", flatten(0, c));
                            }
                            std::printf("]\n");
                        });
    }
    {
        scalar_mem_t buffer;
        bad += accepted("select(samples, feature 0)", index,
                        [&]()
                        {
                            const auto values = dataset.select(samples, 0, buffer);
                            std::printf("    scalar value read for that index: %g\n", values(0));
                        });
    }
    {
        sclass_mem_t buffer;
        bad += accepted("select(samples, feature 1)", index,
                        [&]()
                        {
                            const auto values = dataset.select(samples, 1, buffer);
                            std::printf("    class value read for that index: %d\n", static_cast<int>(values(0)));
                        });
    }
    if (!out_range)
    {
        return bad == 3 ? 0 : 2; // an in-range index must be accepted
    }
    return bad > 0 ? 1 : 0;
}


// ---- scenario: storage pools (dispatch of datasource_t::resize vs datasource_t::visit)
class storage_datasource_t final : public datasource_t
{
public:
    storage_datasource_t(const tensor_size_t samples, const tensor_size_t classes)
        : datasource_t("replay-storage")
        , m_samples(samples)
        , m_classes(classes)
    {
    }

    rdatasource_t clone() const override { return std::make_unique<storage_datasource_t>(*this); }

    static tensor_size_t big(tensor_size_t sample, tensor_size_t classes) { return (sample * 7 + 51) % classes; }

    static tensor_size_t small(tensor_size_t sample) { return sample % 3; }

private:
    void do_load() override
    {
        strings_t labels;
        for (tensor_size_t c = 0; c < m_classes; ++c)
        {
            labels.push_back("c" + std::to_string(c));
        }
        resize(m_samples, features_t{feature_t{"big"}.sclass(labels), feature_t{"small"}.sclass(strings_t{"a", "b", "c"})});
        for (tensor_size_t sample = 0; sample < m_samples; ++sample)
        {
            set(sample, 0, big(sample, m_classes));
        }
        for (tensor_size_t sample = 0; sample < m_samples; ++sample)
        {
            set(sample, 1, small(sample));
        }
    }

    tensor_size_t m_samples{0};
    tensor_size_t m_classes{0};
};

static int storage_main(const tensor_size_t classes)
{
    const auto N          = tensor_size_t{37};
    auto       datasource = storage_datasource_t{N, classes};
    datasource.load();
    auto dataset = dataset_t{datasource, 1U};
    dataset.add<sclass_identity_generator_t>();

    const auto   samples = arange(0, N);
    sclass_mem_t buffer0;
    sclass_mem_t buffer1;
    const auto   big   = dataset.select(samples, 0, buffer0);
    const auto   small = dataset.select(samples, 1, buffer1);
    int          bad   = 0;
    for (tensor_size_t s = 0; s < N; ++s)
    {
        if (big(s) != storage_datasource_t::big(s, classes) || small(s) != storage_datasource_t::small(s))
        {
            if (bad++ < 3)
            {
                std::printf("  classes=%ld sample %ld: select(big)=%d stored %ld, select(small)=%d stored %ld\n",
                            static_cast<long>(classes), static_cast<long>(s), static_cast<int>(big(s)),
                            static_cast<long>(storage_datasource_t::big(s, classes)), static_cast<int>(small(s)),
                            static_cast<long>(storage_datasource_t::small(s)));
            }
        }
    }
    std::printf("storage: classes=%ld: %d of %ld samples differ from the stored labels\n", static_cast<long>(classes), bad,
                static_cast<long>(N));
    return bad > 0 ? 1 : 0;
}

// ---- scenarios: pairwise product, drop / shuffle flags
class mixed_datasource_t final : public datasource_t
{
public:
    mixed_datasource_t()
        : datasource_t("replay-mixed")
    {
    }

    rdatasource_t clone() const override { return std::make_unique<mixed_datasource_t>(*this); }

    static constexpr tensor_size_t N = 13;

    static double value(tensor_size_t feature, tensor_size_t sample)
    {
        switch (feature)
        {
        case 0: return static_cast<double>(sample - 6);                               // int8, negative values
        case 1: return static_cast<double>(17 + sample);                              // uint32
        case 2: return static_cast<double>(50020 + sample);                           // int32, squares exceed 32 bits
        default: return static_cast<double>(static_cast<float>(0.1F * (sample + 1))); // float32
        }
    }

private:
    void do_load() override
    {
        resize(N, features_t{feature_t{"i8"}.scalar(feature_type::int8), feature_t{"u32"}.scalar(feature_type::uint32),
                             feature_t{"i32"}.scalar(feature_type::int32), feature_t{"f32"}.scalar(feature_type::float32)});
        for (tensor_size_t sample = 0; sample < N; ++sample)
        {
            set(sample, 0, sample - 6);
            set(sample, 1, 17 + sample);
            set(sample, 2, 50020 + sample);
            set(sample, 3, 0.1F * static_cast<float>(sample + 1));
        }
    }
};

static int product_main()
{
    auto datasource = mixed_datasource_t{};
    datasource.load();
    auto dataset = dataset_t{datasource, 1U};
    dataset.add<pairwise_product_generator_t>();

    const auto   samples = arange(0, mixed_datasource_t::N);
    scalar_mem_t buffer;
    int          bad = 0;
    // product features are generated for the pairs (a, b), a <= b, in lexicographic order
    tensor_size_t feature = 0;
    for (tensor_size_t a = 0; a < 4; ++a)
    {
        for (tensor_size_t b = a; b < 4; ++b, ++feature)
        {
            const auto values = dataset.select(samples, feature, buffer);
            for (tensor_size_t s = 0; s < mixed_datasource_t::N; ++s)
            {
                const auto expected = mixed_datasource_t::value(a, s) * mixed_datasource_t::value(b, s);
                if (!(values(s) == expected))
                {
                    if (bad++ < 4)
                    {
                        std::printf("  %s: sample %ld: sources %.17g * %.17g = %.17g, but select = %.17g\n",
                                    dataset.feature(feature).name().c_str(), static_cast<long>(s),
                                    mixed_datasource_t::value(a, s), mixed_datasource_t::value(b, s), expected, values(s));
                    }
                }
            }
        }
    }
    std::printf("product: %d values differ from the product of the stored sources (features=%ld)\n", bad,
                static_cast<long>(dataset.features()));
    return (bad > 0 || dataset.features() != 10) ? 1 : 0;
}

static int flags_main()
{
    auto datasource = mixed_datasource_t{};
    datasource.load();
    auto dataset = dataset_t{datasource, 1U};
    dataset.add<scalar_identity_generator_t>();

    const auto   samples = arange(0, mixed_datasource_t::N);
    scalar_mem_t buffer;
    int          bad = 0;
    for (tensor_size_t f = 0; f < dataset.features(); ++f)
    {
        dataset.shuffle(f);
        dataset.drop(f);
        const auto values = dataset.select(samples, f, buffer);
        tensor_size_t present = 0;
        for (tensor_size_t s = 0; s < mixed_datasource_t::N; ++s)
        {
            present += std::isfinite(values(s)) ? 1 : 0;
        }
        if (present > 0)
        {
            ++bad;
            std::printf("  shuffle(%ld); drop(%ld): %ld of %ld values are still present (expected all missing)\n",
                        static_cast<long>(f), static_cast<long>(f), static_cast<long>(present),
                        static_cast<long>(mixed_datasource_t::N));
        }
        dataset.undrop();
        dataset.unshuffle();
    }
    std::printf("flags: %d features not missing after shuffle(f); drop(f)\n", bad);
    return bad > 0 ? 1 : 0;
}

// ---- scenario: arbitrary sample list against the range guard
static int list_main(int argc, char* argv[])
{
    const auto N          = static_cast<tensor_size_t>(argc > 2 ? std::atol(argv[2]) : 10);
    auto       datasource = memory_datasource_t{N};
    datasource.load();
    auto dataset = dataset_t{datasource, 1U};
    dataset.add<scalar_identity_generator_t>();
    dataset.add<sclass_identity_generator_t>();

    const auto count = static_cast<tensor_size_t>(argc > 3 ? argc - 3 : 0);
    indices_t  samples(count);
    bool       out_range = false;
    std::printf("samples()=%ld list=[", static_cast<long>(N));
    for (tensor_size_t i = 0; i < count; ++i)
    {
        samples(i) = static_cast<tensor_size_t>(std::atol(argv[3 + i]));
        out_range  = out_range || samples(i) < 0 || samples(i) >= N;
        std::printf("%s%ld", i ? "," : "", static_cast<long>(samples(i)));
    }
    std::printf("] (%s)\n", out_range ? "has an entry outside [0, samples())" : "all entries valid");
    int accepted_calls = 0;
    {
        tensor2d_t buffer;
        accepted_calls += accepted("flatten(list)", count > 1 ? samples(1) : -1, [&]() { dataset.flatten(samples, buffer); });
    }
    {
        scalar_mem_t buffer;
        accepted_calls += accepted("select(list, feature 0)", count > 1 ? samples(1) : -1, [&]() { dataset.select(samples, 0, buffer); });
    }
    return (out_range && accepted_calls > 0) ? 1 : 0;
}

// ---- scenario: feature index against the range guard
static int feature_main(const tensor_size_t feature)
{
    auto datasource = memory_datasource_t{16};
    datasource.load();
    auto dataset = dataset_t{datasource, 1U};
    dataset.add<scalar_identity_generator_t>();
    dataset.add<sclass_identity_generator_t>();
    const auto out_range = feature < 0 || feature >= dataset.features();
    std::printf("features()=%ld feature=%ld (%s [0, features()))\n", static_cast<long>(dataset.features()),
                static_cast<long>(feature), out_range ? "outside" : "inside");
    // the call runs in a child process: an accepted out-of-range index goes on to index the feature mapping out of bounds
    std::fflush(stdout);
    const auto pid = fork();
    if (pid == 0)
    {
        try
        {
            dataset.drop(feature);
        }
        catch (const std::exception&)
        {
            _exit(0);
        }
        _exit(1);
    }
    int status = 0;
    waitpid(pid, &status, 0);
    const auto rejected = WIFEXITED(status) && WEXITSTATUS(status) == 0;
    std::printf("  drop(%ld): %s\n", static_cast<long>(feature),
                rejected ? "rejected with an exception" : WIFSIGNALED(status) ? "ACCEPTED (no exception; then crashed reading out of range)" : "ACCEPTED (no exception)");
    return (out_range && !rejected) ? 1 : 0;
}

// ---- scenario: one-hot flatten of a single-label feature that owns the last columns
class onehot_datasource_t final : public datasource_t
{
public:
    onehot_datasource_t()
        : datasource_t("replay-onehot")
    {
    }

    rdatasource_t clone() const override { return std::make_unique<onehot_datasource_t>(*this); }

    static constexpr tensor_size_t N = 9;

private:
    void do_load() override
    {
        resize(N, features_t{feature_t{"x"}.scalar(feature_type::float64), feature_t{"cat"}.sclass(strings_t{"a", "b", "c"})});
        for (tensor_size_t sample = 0; sample < N; ++sample)
        {
            set(sample, 0, 100.0 + static_cast<double>(sample));
            set(sample, 1, sample % 3);
        }
    }
};

static int onehot_main()
{
    auto datasource = onehot_datasource_t{};
    datasource.load();
    auto dataset = dataset_t{datasource, 1U};
    dataset.add<scalar_identity_generator_t>();
    dataset.add<sclass_identity_generator_t>();

    // one spare row at the end of the buffer keeps a stray write inside the allocation
    const auto samples = arange(0, onehot_datasource_t::N - 1);
    tensor2d_t buffer(onehot_datasource_t::N, 3);
    const auto flatten = dataset.flatten(samples, buffer);
    int        bad     = 0;
    for (tensor_size_t s = 0; s < samples.size(); ++s)
    {
        const auto label = s % 3;
        const auto e0 = 100.0 + static_cast<double>(s), e1 = label == 0 ? 1.0 : -1.0, e2 = label == 1 ? 1.0 : -1.0;
        if (flatten(s, 0) != e0 || flatten(s, 1) != e1 || flatten(s, 2) != e2)
        {
            if (bad++ < 3)
            {
                std::printf("  row %ld (label %ld): flatten = [%g, %g, %g], expected [%g, %g, %g]\n", static_cast<long>(s),
                            static_cast<long>(label), flatten(s, 0), flatten(s, 1), flatten(s, 2), e0, e1, e2);
            }
        }
    }
    std::printf("onehot: %d of %ld rows differ from [value, one-hot(label)]\n", bad, static_cast<long>(samples.size()));
    return bad > 0 ? 1 : 0;
}

int main(int argc, char* argv[])
{
    if (argc > 1 && std::strcmp(argv[1], "list") == 0)
    {
        return list_main(argc, argv);
    }
    if (argc > 1 && std::strcmp(argv[1], "feature") == 0)
    {
        return feature_main(static_cast<tensor_size_t>(argc > 2 ? std::atol(argv[2]) : 2));
    }
    if (argc > 1 && std::strcmp(argv[1], "onehot") == 0)
    {
        return onehot_main();
    }
    if (argc > 1 && std::strcmp(argv[1], "storage") == 0)
    {
        return storage_main(static_cast<tensor_size_t>(argc > 2 ? std::atol(argv[2]) : 256));
    }
    if (argc > 1 && std::strcmp(argv[1], "product") == 0)
    {
        return product_main();
    }
    if (argc > 1 && std::strcmp(argv[1], "flags") == 0)
    {
        return flags_main();
    }
    return range_main(argc, argv);
}
