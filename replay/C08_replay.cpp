// native replay for C08 (range guards): builds a real in-memory datasource with N samples (one int64 scalar feature and
// one single-label feature, every value given, as test/fixture/generator_datasource.h does), wraps it in a real
// dataset_t with identity generators and calls the public API with the sample index list {i} taken from the verifier's
// counterexample.  The property's own postcondition is evaluated natively:
//     an index outside [0, samples()) must be rejected with an exception (and never read).
// usage: C08_replay <N> <index>     exit 1: an out-of-range index was accepted (violation reproduced), exit 0 otherwise
#include <nano/dataset.h>
#include <nano/generator/elemwise_identity.h>
#include <cstdio>
#include <cstdlib>
using namespace nano;

class memory_datasource_t final : public datasource_t
{
public:
    explicit memory_datasource_t(const tensor_size_t samples)
        : datasource_t("replay")
        , m_samples(samples)
    {
    }

    rdatasource_t clone() const override { return std::make_unique<memory_datasource_t>(*this); }

private:
    void do_load() override
    {
        resize(m_samples, features_t{feature_t{"scalar"}.scalar(feature_type::int64),
                                     feature_t{"sclass"}.sclass(strings_t{"a", "b", "c"})});
        for (tensor_size_t sample = 0; sample < m_samples; ++sample)
        {
            set(sample, 0, 1000 + sample);
            set(sample, 1, sample % 3);
        }
    }

    tensor_size_t m_samples{0};
};

template <class toperator>
static int accepted(const char* what, tensor_size_t index, const toperator& op)
{
    try
    {
        op();
    }
    catch (const std::exception&)
    {
        std::printf("  %s: index %ld rejected with an exception\n", what, static_cast<long>(index));
        return 0;
    }
    std::printf("  %s: index %ld ACCEPTED (no exception)\n", what, static_cast<long>(index));
    return 1;
}

int main(int argc, char* argv[])
{
    const auto N     = static_cast<tensor_size_t>(argc > 1 ? std::atol(argv[1]) : 16);
    const auto index = static_cast<tensor_size_t>(argc > 2 ? std::atol(argv[2]) : N);

    auto datasource = memory_datasource_t{N};
    datasource.load();
    auto dataset = dataset_t{datasource, 1U};
    dataset.add<scalar_identity_generator_t>();
    dataset.add<sclass_identity_generator_t>();

    indices_t samples(1);
    samples(0)           = index;
    const auto out_range = index < 0 || index >= dataset.samples();
    std::printf("samples()=%ld features()=%ld index=%ld (%s [0, samples()))\n", static_cast<long>(dataset.samples()),
                static_cast<long>(dataset.features()), static_cast<long>(index), out_range ? "outside" : "inside");

    int bad = 0;
    {
        tensor2d_t buffer;
        bad += accepted("flatten(samples)", index,
                        [&]()
                        {
                            const auto flatten = dataset.flatten(samples, buffer);
                            std::printf("    flattened row read for that index: [");
                            for (tensor_size_t c = 0; c < flatten.size<1>(); ++c)
                            {
                                std::printf("%s%g", c ? ", " : "", flatten(0, c));
                            }
                            std::printf("]\n");
                        });
    }
    {
        scalar_mem_t buffer;
        bad += accepted("select(samples, feature 0)", index,
                        [&]()
                        {
                            const auto values = dataset.select(samples, 0, buffer);
                            std::printf("    scalar value read for that index: %g\n", values(0));
                        });
    }
    {
        sclass_mem_t buffer;
        bad += accepted("select(samples, feature 1)", index,
                        [&]()
                        {
                            const auto values = dataset.select(samples, 1, buffer);
                            std::printf("    class value read for that index: %d\n", static_cast<int>(values(0)));
                        });
    }
    if (!out_range)
    {
        return bad == 3 ? 0 : 2; // an in-range index must be accepted
    }
    return bad > 0 ? 1 : 0;
}
