// native replay for C05 (formulas): evaluates the real linear / quadratic / augmented-Lagrangian penalty functions of
// f(x) = 1/2 |x|^2 subject to  h(x) = x0 - c = 0 (constant_t)  and  g(x) = x1 - d <= 0 (maximum_t)  and compares value and
// gradient with the defining formulas of the property computed independently. usage: C05_replay rho c d x0 x1 lambda mu
#include <nano/function.h>
#include <nano/function/penalty.h>
#include <cmath>
#include <cstdio>
#include <cstdlib>
using namespace nano;
struct half_norm_t final : public function_t
{
    half_norm_t() : function_t("half-norm", 2) { convex(convexity::yes); smooth(smoothness::yes); }
    rfunction_t clone() const override { return std::make_unique<half_norm_t>(*this); }
    scalar_t    do_vgrad(vector_cmap_t x, vector_map_t gx) const override
    {
        if (gx.size() == x.size()) { gx = x; }
        return 0.5 * x.dot(x);
    }
};
static int check(const char* what, double got, double want, double g0, double w0, double g1, double w1)
{
    const auto close = [](double a, double b) { return std::fabs(a - b) <= 1e-9 * (1.0 + std::fabs(a) + std::fabs(b)); };
    const bool ok = close(got, want) && close(g0, w0) && close(g1, w1);
    std::printf("{\"penalty\": \"%s\", \"value\": %.12g, \"formula\": %.12g, \"grad\": [%.12g, %.12g], \"formula_grad\": [%.12g, %.12g], \"ok\": %s}\n", what,
                got, want, g0, g1, w0, w1, ok ? "true" : "false");
    return ok ? 0 : 1;
}
int main(int argc, char** argv)
{
    if (argc != 8) return 2;
    const double rho = std::atof(argv[1]), c = std::atof(argv[2]), d = std::atof(argv[3]), x0 = std::atof(argv[4]), x1 = std::atof(argv[5]),
                 lambda = std::atof(argv[6]), mu = std::atof(argv[7]);
    half_norm_t f;
    f.constrain(constraint_t{constraint::constant_t{c, 0}});
    f.constrain(constraint_t{constraint::maximum_t{d, 1}});
    vector_t x(2), gx(2);
    x(0) = x0; x(1) = x1;
    const double h = x0 - c, g = x1 - d, fx = 0.5 * (x0 * x0 + x1 * x1);
    const double sg = h >= 0.0 ? 1.0 : -1.0, gp = std::max(0.0, g);
    int bad = 0;
    {
        auto p = linear_penalty_function_t{f};
        p.penalty(rho);
        const auto v = p.vgrad(x, gx);
        bad += check("linear", v, fx + rho * std::fabs(h) + rho * gp, gx(0), x0 + rho * sg, gx(1), x1 + (g > 0.0 ? rho : 0.0));
    }
    {
        auto p = quadratic_penalty_function_t{f};
        p.penalty(rho);
        const auto v = p.vgrad(x, gx);
        bad += check("quadratic", v, fx + rho * h * h + rho * gp * gp, gx(0), x0 + 2.0 * rho * h, gx(1), x1 + 2.0 * rho * gp);
    }
    {
        vector_t l(1), m(1);
        l(0) = lambda; m(0) = mu;
        auto p = augmented_lagrangian_function_t{f, l, m};
        p.penalty(rho);
        const auto v  = p.vgrad(x, gx);
        const auto te = h + lambda / rho, ti = std::max(0.0, g + mu / rho);
        bad += check("augmented-lagrangian", v, fx + 0.5 * rho * te * te + 0.5 * rho * ti * ti, gx(0), x0 + rho * te, gx(1), x1 + rho * ti);
    }
    return bad ? 1 : 0;
}
