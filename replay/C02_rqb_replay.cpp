// C02 replay: csearch_t::search returns the previous call's status when the evaluation budget runs out inside its loop;
// RQB then moves its state to a trial point that was not accepted (state.update(y, gy, fy)).  Observable: for a convex
// function RQB returns a value ABOVE the starting value (the property says: not larger, for functions in the solver's class).
// usage: C02_rqb_replay [max_evals_lo max_evals_hi]     exit 1 = reproduced
#include <nano/solver.h>
#include <nano/function.h>
#include <iostream>
#include <iomanip>
using namespace nano;
int main(int argc, char** argv)
{
    const auto lo = argc > 1 ? std::atoi(argv[1]) : 10;
    const auto hi = argc > 2 ? std::atoi(argv[2]) : 40;
    auto config = function_t::config_t{};
    config.m_min_dims = 1; config.m_max_dims = 4; config.m_convexity = convexity::yes; config.m_smoothness = smoothness::ignore;
    int bad = 0, runs = 0;
    for (const auto& function : function_t::make(config))
    {
        for (int max_evals = lo; max_evals <= hi; ++max_evals)
        {
            for (uint64_t seed = 1; seed <= 3; ++seed)
            {
                auto solver = solver_t::all().get("rqb");
                solver->parameter("solver::max_evals") = max_evals;
                const vector_t x0 = make_random_vector<scalar_t>(function->size(), -1.0, +1.0, seed_t{seed});
                const auto f0    = function->vgrad(x0);
                const auto state = solver->minimize(*function, x0, make_null_logger());
                const auto fret  = function->vgrad(state.x());     // independent re-evaluation of the returned point
                ++runs;
                if (std::isfinite(f0) && state.status() != solver_status::failed && state.fx() > f0)
                {
                    ++bad;
                    if (bad <= 12)
                    {
                        if (bad == 1)
                        {
                            // the csearch log of the first failing run: the last search call leaves its loop through the
                            // budget test and reports the status of the call before it
                            std::cout << "---- log of the failing run\n";
                            auto again = solver_t::all().get("rqb");
                            again->parameter("solver::max_evals") = max_evals;
                            again->minimize(*function, x0, make_stdout_logger());
                            std::cout << "----\n";
                        }
                        std::cout << std::setprecision(17) << "VIOLATION rqb " << function->name() << " max_evals=" << max_evals << " seed=" << seed
                                  << " x0=" << x0.transpose() << " f(x0)=" << f0 << " returned fx=" << state.fx() << " f(returned x)=" << fret
                                  << " status=" << state.status() << " fcalls=" << state.fcalls() << " gcalls=" << state.gcalls() << "\n";
                    }
                }
            }
        }
    }
    std::cout << "runs=" << runs << " value-above-start=" << bad << "\n";
    return bad > 0 ? 1 : 0;
}
