// native replay of the combinatorial_iterator_t contracts (C13, specs/C13/comb.h) on the REAL header: for every count vector with
// 1..3 dimensions and counts in 1..3 the sequence of *it must be the lexicographic enumeration of the box, index() == rank,
// size() == product, and every operator++ must return (watchdog: 2 s).  exit 1 = a postcondition of the property is violated.
#include <nano/core/combinatorial.h>
#include <csignal>
#include <cstdio>
#include <unistd.h>
using namespace nano;
static tensor_size_t g_counts[3]; static int g_dims = 0;
static void on_alarm(int)
{
    std::printf("VIOLATION: operator++ did not return within 2 s for counts (");
    for (int i = 0; i < g_dims; ++i) { std::printf("%s%ld", i ? ", " : "", static_cast<long>(g_counts[i])); }
    std::printf(")\n");
    std::fflush(stdout);
    _exit(1);
}
int main()
{
    std::signal(SIGALRM, on_alarm);
    int bad = 0;
    for (int dims = 1; dims <= 3; ++dims)
    {
        const int total = dims == 1 ? 3 : dims == 2 ? 9 : 27;
        for (int code = 0; code < total; ++code)
        {
            tensor_mem_t<tensor_size_t, 1> counts(dims);
            tensor_size_t prod = 1;
            for (int d = 0, c = code; d < dims; ++d, c /= 3) { counts(d) = 1 + c % 3; g_counts[d] = counts(d); prod *= counts(d); }
            g_dims = dims;
            auto it = combinatorial_iterator_t{counts};
            if (it.size() != prod) { std::printf("VIOLATION: size() %ld != product %ld\n", (long)it.size(), (long)prod); bad = 1; }
            tensor_size_t k = 0;
            for (; it; ++k)
            {
                tensor_size_t rank = 0;
                for (int d = 0; d < dims; ++d)
                {
                    if ((*it)(d) < 0 || (*it)(d) >= counts(d)) { std::printf("VIOLATION: digit outside its box\n"); bad = 1; }
                    rank = rank * counts(d) + (*it)(d);
                }
                if (rank != k || it.index() != k) { std::printf("VIOLATION: rank %ld index %ld at step %ld\n", (long)rank, (long)it.index(), (long)k); bad = 1; }
                if (k > prod) { break; }
                alarm(2);
                ++it;
                alarm(0);
            }
            if (k != prod) { std::printf("VIOLATION: %ld combinations instead of %ld\n", (long)k, (long)prod); bad = 1; }
        }
    }
    std::printf(bad ? "violations found\n" : "ok\n");
    return bad;
}
