// C02 replay (gradient sampling solvers): gsample::lsearch_t::step moves the state with state.update(x) to a trial point that
// passed `fx < state.fx() - t * df`; a value of -inf passes that test.  If the evaluation budget is exhausted right after the
// step, do_minimize leaves its loop without going through solver_t::done and returns status max_iters with a non-finite value
// ("unless the status is failed the returned point and value are finite").
// Scripted 1-D function: f(x) = x for x > 0.9 (so the sampled gradients around x0 = 1 are all 1), 10 for x < 0.25 (the first trial
// x0 - d fails), -inf in between (the bisection trial x0 - d/2 is accepted).   exit 1 = reproduced
#include <nano/function.h>
#include <nano/solver.h>
#include <cmath>
#include <cstdio>
using namespace nano;
struct pit_t final : public function_t
{
    pit_t() : function_t("pit", 1) { convex(convexity::no); smooth(smoothness::no); }
    rfunction_t clone() const override { return std::make_unique<pit_t>(*this); }
    scalar_t    do_vgrad(vector_cmap_t x, vector_map_t gx) const override
    {
        const auto v = x(0);
        if (gx.size() == x.size()) { gx(0) = v > 0.9 ? 1.0 : 0.0; }
        return v > 0.9 ? v : (v < 0.25 ? 10.0 : -std::numeric_limits<scalar_t>::infinity());
    }
};
int main()
{
    int bad = 0;
    for (const auto& id : {"gs", "ags", "gs-lbfgs", "ags-lbfgs"})
    {
        for (int max_evals = 10; max_evals <= 40; ++max_evals)
        {
            auto solver = solver_t::all().get(id);
            solver->parameter("solver::max_evals") = max_evals;
            pit_t    f;
            vector_t x0(1);
            x0(0) = 1.0;
            const auto state  = solver->minimize(f, x0, make_null_logger());
            const bool finite = std::isfinite(state.fx()) && state.x().all_finite();
            if (state.status() != solver_status::failed && !finite)
            {
                ++bad;
                std::printf("VIOLATION %s max_evals=%d x0=1: status=%d (max_iters=0/converged=1/failed=2) fx=%g x=%.17g fcalls=%d gcalls=%d\n", id, max_evals,
                            static_cast<int>(state.status()), state.fx(), state.x()(0), static_cast<int>(state.fcalls()), static_cast<int>(state.gcalls()));
            }
        }
    }
    std::printf("non-finite value returned with a status other than failed: %d runs\n", bad);
    return bad ? 1 : 0;
}
