// native replay for C10 (dtree_do_split.postcondition.7 "one group per leaf table"): builds a real in-memory datasource with
// N samples, one scalar feature x = sample index and a single-label target with K classes (=> target dims (K, 1, 1)),
// fits a real dtree_wlearner_t on the residuals r(sample, k) = (x < N/2 ? +1 : -1) * (k + 1) and calls the public split().
// The property's clause is evaluated natively:
//     cluster.groups() must be the number of prediction tables, tables().size<0>()   (as for stump / hinge / affine / tables),
// which is also the precondition (its own assert) of wlearner::scale for the factor vector gboost builds from that cluster
// (src/gboost/model.cpp: scale_function_t has cluster.groups() dimensions, best_wlearner->scale(gstate.x() * ratio)).
// usage: C10_replay <N> <K>     exit 1: groups() != tables().size<0>() (violation reproduced), exit 0 otherwise
#include <nano/dataset.h>
#include <nano/generator/elemwise_identity.h>
#include <nano/wlearner/dtree.h>
#include <cstdio>
#include <cstdlib>
using namespace nano;

class memory_datasource_t final : public datasource_t
{
public:
    memory_datasource_t(const tensor_size_t samples, const tensor_size_t classes)
        : datasource_t("replay")
        , m_samples(samples)
        , m_classes(classes)
    {
    }

    rdatasource_t clone() const override { return std::make_unique<memory_datasource_t>(*this); }

private:
    void do_load() override
    {
        strings_t labels;
        for (tensor_size_t k = 0; k < m_classes; ++k)
        {
            labels.push_back("c" + std::to_string(k));
        }
        resize(m_samples, features_t{feature_t{"x"}.scalar(feature_type::float64), feature_t{"y"}.sclass(labels)}, 1U);
        for (tensor_size_t sample = 0; sample < m_samples; ++sample)
        {
            set(sample, 0, static_cast<scalar_t>(sample));
            set(sample, 1, sample % m_classes);
        }
    }

    tensor_size_t m_samples{0};
    tensor_size_t m_classes{0};
};

int main(int argc, char* argv[])
{
    const auto N = static_cast<tensor_size_t>(argc > 1 ? std::atol(argv[1]) : 40);
    const auto K = static_cast<tensor_size_t>(argc > 2 ? std::atol(argv[2]) : 3);

    auto datasource = memory_datasource_t{N, K};
    datasource.load();
    auto dataset = dataset_t{datasource, 1U};
    dataset.add<scalar_identity_generator_t>();

    const auto tdims = dataset.target_dims();
    std::printf("samples()=%ld features()=%ld target dims=(%ld,%ld,%ld)\n", static_cast<long>(dataset.samples()),
                static_cast<long>(dataset.features()), static_cast<long>(std::get<0>(tdims)),
                static_cast<long>(std::get<1>(tdims)), static_cast<long>(std::get<2>(tdims)));

    auto samples = indices_t{N};
    for (tensor_size_t i = 0; i < N; ++i)
    {
        samples(i) = i;
    }
    auto gradients = tensor4d_t{cat_dims(N, tdims)};
    for (tensor_size_t i = 0; i < N; ++i)
    {
        for (tensor_size_t k = 0; k < gradients.size<1>(); ++k)
        {
            gradients(i, k, 0, 0) = (i < N / 2 ? 1.0 : -1.0) * static_cast<scalar_t>(k + 1);
        }
    }

    auto wlearner = dtree_wlearner_t{};
    wlearner.parameter("wlearner::dtree::max_depth") = 1;
    const auto score = wlearner.fit(dataset, samples, gradients);
    std::printf("fit score=%g nodes=%zu tables dims=(%ld,%ld,%ld,%ld)\n", score, wlearner.nodes().size(),
                static_cast<long>(wlearner.tables().size<0>()), static_cast<long>(wlearner.tables().size<1>()),
                static_cast<long>(wlearner.tables().size<2>()), static_cast<long>(wlearner.tables().size<3>()));
    if (score == wlearner_t::no_fit_score())
    {
        std::printf("no fit\n");
        return 0;
    }

    const auto cluster = wlearner.split(dataset, samples);
    auto       maxg    = tensor_size_t{-1};
    for (tensor_size_t i = 0; i < N; ++i)
    {
        maxg = std::max(maxg, cluster.group(i));
    }
    const auto tables = wlearner.tables().size<0>();
    std::printf("split(): cluster.groups()=%ld, prediction tables (tables().size<0>())=%ld, tables().size()=%ld, largest assigned group=%ld\n",
                static_cast<long>(cluster.groups()), static_cast<long>(tables), static_cast<long>(wlearner.tables().size()),
                static_cast<long>(maxg));
    // the factor vector gboost hands to scale() has one entry per cluster group: wlearner::scale asserts
    // scale.size() == 1 || scale.size() == tables.size<0>()
    const auto scale_size = cluster.groups();
    const auto scale_ok   = scale_size == 1 || scale_size == tables;
    std::printf("wlearner::scale precondition (scale.size()=%ld == 1 or == %ld): %s\n", static_cast<long>(scale_size),
                static_cast<long>(tables), scale_ok ? "holds" : "VIOLATED");
    return cluster.groups() == tables ? 0 : 1;
}
