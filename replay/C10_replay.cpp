// native replay for C10 (dtree_do_split.postcondition.7 "one group per leaf table"): builds a real in-memory datasource with
// N samples, one scalar feature x = sample index and a single-label target with K classes (=> target dims (K, 1, 1)),
// fits a real dtree_wlearner_t on the residuals r(sample, k) = (x < N/2 ? +1 : -1) * (k + 1) and calls the public split().
// The property's clause is evaluated natively:
//     cluster.groups() must be the number of prediction tables, tables().size<0>()   (as for stump / hinge / affine / tables),
// which is also the precondition (its own assert) of wlearner::scale for the factor vector gboost builds from that cluster
// (src/gboost/model.cpp: scale_function_t has cluster.groups() dimensions, best_wlearner->scale(gstate.x() * ratio)).
// usage: C10_replay <N> <K>     exit 1: groups() != tables().size<0>() (violation reproduced), exit 0 otherwise
//
// second scenario (targets stump_fit_sweep / hinge_fit_sweep, "a candidate threshold is evaluated only between two different
// consecutive sorted feature values; the reported score is the score of the partition the predictor uses"):
//   C10_replay ties <stump|hinge>
// one scalar feature with TIED values {1,1,1,1,2,2,2,2,3,3} and residuals that vary inside the tied groups; the real learner is
// fitted with the RSS criterion and the clause is evaluated natively: the stored threshold must lie strictly between two
// different consecutive feature values a < b (a < threshold <= b), and the RSS of the learner's own predictions must be the RSS it returned.
// `ties <learner> adjacent` uses the consecutive doubles 1, 1 + ulp, 1 + 2 ulp instead (the mid-point of two adjacent doubles rounds onto one of them).
//   exit 1: violated, exit 0 otherwise
#include <nano/dataset.h>
#include <nano/generator/elemwise_identity.h>
#include <nano/wlearner/criterion.h>
#include <nano/wlearner/dtree.h>
#include <nano/wlearner/hinge.h>
#include <nano/wlearner/stump.h>
#include <nano/wlearner/table.h>
#include <algorithm>
#include <cmath>
#include <cstring>
#include <cstdio>
#include <cstdlib>
using namespace nano;

class memory_datasource_t final : public datasource_t
{
public:
    memory_datasource_t(const tensor_size_t samples, const tensor_size_t classes)
        : datasource_t("replay")
        , m_samples(samples)
        , m_classes(classes)
    {
    }

    rdatasource_t clone() const override { return std::make_unique<memory_datasource_t>(*this); }

private:
    void do_load() override
    {
        strings_t labels;
        for (tensor_size_t k = 0; k < m_classes; ++k)
        {
            labels.push_back("c" + std::to_string(k));
        }
        resize(m_samples, features_t{feature_t{"x"}.scalar(feature_type::float64), feature_t{"y"}.sclass(labels)}, 1U);
        for (tensor_size_t sample = 0; sample < m_samples; ++sample)
        {
            set(sample, 0, static_cast<scalar_t>(sample));
            set(sample, 1, sample % m_classes);
        }
    }

    tensor_size_t m_samples{0};
    tensor_size_t m_classes{0};
};

class ties_datasource_t final : public datasource_t
{
public:
    ties_datasource_t()
        : datasource_t("replay-ties")
    {
    }

    rdatasource_t clone() const override { return std::make_unique<ties_datasource_t>(*this); }

    static constexpr tensor_size_t N = 10;

    // ties: x = {1,1,1,1,2,2,2,2,3,3};  adjacent (third argument): the three values are consecutive doubles 1, 1+ulp, 1+2ulp
    static inline bool adjacent = false;

    static scalar_t value(const tensor_size_t sample)
    {
        const auto group = sample < 4 ? 0 : (sample < 8 ? 1 : 2);
        if (!adjacent)
        {
            return 1.0 + group;
        }
        auto v = 1.0;
        for (int k = 0; k < group; ++k)
        {
            v = std::nextafter(v, 2.0);
        }
        return v;
    }

private:
    void do_load() override
    {
        resize(N, features_t{feature_t{"x"}.scalar(feature_type::float64), feature_t{"y"}.scalar(feature_type::float64)}, 1U);
        for (tensor_size_t sample = 0; sample < N; ++sample)
        {
            set(sample, 0, value(sample));
            set(sample, 1, 0.0);
        }
    }
};

template <class twlearner>
static int ties_scenario(const char* name, scalar_t (*threshold_of)(const twlearner&))
{
    auto datasource = ties_datasource_t{};
    datasource.load();
    auto dataset = dataset_t{datasource, 1U};
    dataset.add<scalar_identity_generator_t>();

    const auto     N           = ties_datasource_t::N;
    const scalar_t residuals[] = {-2.1, -1.9, -2.2, -1.8, -1.0, -1.1, +0.1, -0.1, 0.2, -0.2};
    auto           samples     = indices_t{N};
    auto           gradients   = tensor4d_t{make_dims(N, 1, 1, 1)};
    for (tensor_size_t i = 0; i < N; ++i)
    {
        samples(i)   = i;
        gradients(i) = -residuals[i];
    }

    auto wlearner                             = twlearner{};
    wlearner.parameter("wlearner::criterion") = wlearner_criterion::rss;
    const auto fit_rss                        = wlearner.fit(dataset, samples, gradients);
    if (fit_rss == wlearner_t::no_fit_score())
    {
        std::printf("%s: no fit\n", name);
        return 0;
    }
    const auto threshold = threshold_of(wlearner);

    auto on_value = false;
    for (tensor_size_t i = 0; i < N; ++i)
    {
        on_value = on_value || ties_datasource_t::value(i) == threshold;
    }
    const auto v0 = ties_datasource_t::value(0), v1 = ties_datasource_t::value(4), v2 = ties_datasource_t::value(8);
    // usable threshold: `value < threshold` cuts between two different consecutive values a < b, i.e. a < threshold <= b
    const auto between = (v0 < threshold && threshold <= v1) || (v1 < threshold && threshold <= v2);

    const auto outputs     = wlearner.predict(dataset, samples);
    auto       predict_rss = 0.0;
    for (tensor_size_t i = 0; i < N; ++i)
    {
        const auto delta = residuals[i] - outputs(i);
        predict_rss += delta * delta;
    }
    const auto same_rss = std::fabs(predict_rss - fit_rss) <= 1e-9 * (1.0 + std::fabs(fit_rss));

    std::printf("%s fitted on x = {a,a,a,a,b,b,b,b,c,c} with (a,b,c) = (%.17g, %.17g, %.17g): threshold=%.17g (%s), returned RSS=%.12g, RSS of its predictions=%.12g (%s)\n", name,
                v0, v1, v2, threshold, between ? (on_value ? "cuts between two different values, on the upper one" : "between two different values") : (on_value ? "ON a feature value it should separate from the next" : "outside"),
                fit_rss, predict_rss, same_rss ? "reproduced" : "NOT reproduced");
    return (!between || !same_rss) ? 1 : 0;
}

// third scenario (targets acc_sort / tbl_score, "the gain of a label set is the SUM over the outputs of its squared residual sums"):
//   C10_replay dstep
// one single-label feature with 3 classes, a target with TWO outputs, residuals whose per-class sums have mixed signs across the
// outputs; the real discrete-step table is fitted with the RSS criterion and the clause is evaluated natively: the returned
// score must be the RSS of the learner's own predictions.     exit 1: violated, exit 0 otherwise
class classes_datasource_t final : public datasource_t
{
public:
    classes_datasource_t()
        : datasource_t("replay-classes")
    {
    }

    rdatasource_t clone() const override { return std::make_unique<classes_datasource_t>(*this); }

    static constexpr tensor_size_t N = 9;

private:
    void do_load() override
    {
        resize(N, features_t{feature_t{"c"}.sclass(strings_t{"c0", "c1", "c2"}), feature_t{"y"}.scalar(feature_type::float64, make_dims(2, 1, 1))}, 1U);
        auto zero = tensor3d_t{make_dims(2, 1, 1)};
        zero.zero();
        for (tensor_size_t sample = 0; sample < N; ++sample)
        {
            set(sample, 0, sample % 3);
            set(sample, 1, zero);
        }
    }
};

static int dstep_scenario()
{
    auto datasource = classes_datasource_t{};
    datasource.load();
    auto dataset = dataset_t{datasource, 1U};
    dataset.add<sclass_identity_generator_t>();

    const auto N = classes_datasource_t::N;
    // residuals (sample, output): class 0: (+3, -3) on every sample (sums cancel across the outputs), class 1: (+1, +1), class 2: ~0
    auto samples   = indices_t{N};
    auto gradients = tensor4d_t{make_dims(N, 2, 1, 1)};
    for (tensor_size_t i = 0; i < N; ++i)
    {
        samples(i)            = i;
        const auto cls        = i % 3;
        const auto r0         = cls == 0 ? 3.0 : (cls == 1 ? 1.0 : 0.1 * (static_cast<scalar_t>(i) - 4.0));
        const auto r1         = cls == 0 ? -3.0 : (cls == 1 ? 1.0 : 0.05);
        gradients(i, 0, 0, 0) = -r0;
        gradients(i, 1, 0, 0) = -r1;
    }

    auto wlearner                             = dstep_table_wlearner_t{};
    wlearner.parameter("wlearner::criterion") = wlearner_criterion::rss;
    const auto fit_rss                        = wlearner.fit(dataset, samples, gradients);
    if (fit_rss == wlearner_t::no_fit_score())
    {
        std::printf("dstep: no fit\n");
        return 0;
    }
    const auto outputs     = wlearner.predict(dataset, samples);
    auto       predict_rss = 0.0;
    for (tensor_size_t i = 0; i < N; ++i)
    {
        for (tensor_size_t o = 0; o < 2; ++o)
        {
            const auto delta = -gradients(i, o, 0, 0) - outputs(i, o, 0, 0);
            predict_rss += delta * delta;
        }
    }
    const auto same_rss = std::fabs(predict_rss - fit_rss) <= 1e-9 * (1.0 + std::fabs(fit_rss));
    std::printf("dstep table on 3 classes, 2 outputs (class 0 residuals (+3,-3)): selected class hash=%lu, returned RSS=%.12g, RSS of its predictions=%.12g (%s)\n",
                static_cast<unsigned long>(wlearner.hashes()(0)), fit_rss, predict_rss, same_rss ? "reproduced" : "NOT reproduced");
    return same_rss ? 0 : 1;
}

// fourth scenario (targets *_do_split, "split assigns exactly the given samples, by sample index"):   C10_replay split
// the real hinge is fitted on x = {1,1,1,1,2,2,2,2,3,3} and split() is called with the unordered list (9,4,7,0,8,4,5): every
// dataset sample must get group 0 iff it is in the list and its value is on the active side, no group otherwise.
static int split_scenario()
{
    auto datasource = ties_datasource_t{};
    datasource.load();
    auto dataset = dataset_t{datasource, 1U};
    dataset.add<scalar_identity_generator_t>();

    const auto     N           = ties_datasource_t::N;
    const scalar_t residuals[] = {-2.1, -1.9, -2.2, -1.8, -1.0, -1.1, +0.1, -0.1, 0.2, -0.2};
    auto           all         = indices_t{N};
    auto           gradients   = tensor4d_t{make_dims(N, 1, 1, 1)};
    for (tensor_size_t i = 0; i < N; ++i)
    {
        all(i)       = i;
        gradients(i) = -residuals[i];
    }
    auto wlearner                             = hinge_wlearner_t{};
    wlearner.parameter("wlearner::criterion") = wlearner_criterion::rss;
    if (wlearner.fit(dataset, all, gradients) == wlearner_t::no_fit_score())
    {
        std::printf("hinge: no fit\n");
        return 0;
    }
    const auto samples = make_indices(9, 4, 7, 0, 8, 4, 5);
    const auto cluster = wlearner.split(dataset, samples);
    auto       bad     = 0;
    for (tensor_size_t s = 0; s < N; ++s)
    {
        const auto x      = ties_datasource_t::value(s);
        const auto listed = std::find(samples.begin(), samples.end(), s) != samples.end();
        const auto active = wlearner.hinge() == hinge_type::left ? (x < wlearner.threshold()) : (x >= wlearner.threshold());
        const auto expect = (listed && active) ? 0 : -1;
        if (cluster.group(s) != expect)
        {
            std::printf("  sample %ld (x=%g, %s the list, %s): split reports group %ld, expected %d\n", static_cast<long>(s), x, listed ? "in" : "NOT in",
                        active ? "active" : "inactive", static_cast<long>(cluster.group(s)), expect);
            ++bad;
        }
    }
    std::printf("hinge(threshold=%g, %s) split on the list (9,4,7,0,8,4,5): %d of %ld dataset samples with a wrong group\n", wlearner.threshold(),
                wlearner.hinge() == hinge_type::left ? "left" : "right", bad, static_cast<long>(N));
    return bad > 0 ? 1 : 0;
}

int main(int argc, char* argv[])
{
    if (argc > 1 && std::strcmp(argv[1], "split") == 0)
    {
        return split_scenario();
    }
    if (argc > 1 && std::strcmp(argv[1], "dstep") == 0)
    {
        return dstep_scenario();
    }
    if (argc > 2 && std::strcmp(argv[1], "ties") == 0)
    {
        ties_datasource_t::adjacent = argc > 3 && std::strcmp(argv[3], "adjacent") == 0;
        if (std::strcmp(argv[2], "hinge") == 0)
        {
            return ties_scenario<hinge_wlearner_t>("hinge", [](const hinge_wlearner_t& w) { return w.threshold(); });
        }
        return ties_scenario<stump_wlearner_t>("stump", [](const stump_wlearner_t& w) { return w.threshold(); });
    }

    const auto N = static_cast<tensor_size_t>(argc > 1 ? std::atol(argv[1]) : 40);
    const auto K = static_cast<tensor_size_t>(argc > 2 ? std::atol(argv[2]) : 3);

    auto datasource = memory_datasource_t{N, K};
    datasource.load();
    auto dataset = dataset_t{datasource, 1U};
    dataset.add<scalar_identity_generator_t>();

    const auto tdims = dataset.target_dims();
    std::printf("samples()=%ld features()=%ld target dims=(%ld,%ld,%ld)\n", static_cast<long>(dataset.samples()),
                static_cast<long>(dataset.features()), static_cast<long>(std::get<0>(tdims)),
                static_cast<long>(std::get<1>(tdims)), static_cast<long>(std::get<2>(tdims)));

    auto samples = indices_t{N};
    for (tensor_size_t i = 0; i < N; ++i)
    {
        samples(i) = i;
    }
    auto gradients = tensor4d_t{cat_dims(N, tdims)};
    for (tensor_size_t i = 0; i < N; ++i)
    {
        for (tensor_size_t k = 0; k < gradients.size<1>(); ++k)
        {
            gradients(i, k, 0, 0) = (i < N / 2 ? 1.0 : -1.0) * static_cast<scalar_t>(k + 1);
        }
    }

    auto wlearner = dtree_wlearner_t{};
    wlearner.parameter("wlearner::dtree::max_depth") = 1;
    const auto score = wlearner.fit(dataset, samples, gradients);
    std::printf("fit score=%g nodes=%zu tables dims=(%ld,%ld,%ld,%ld)\n", score, wlearner.nodes().size(),
                static_cast<long>(wlearner.tables().size<0>()), static_cast<long>(wlearner.tables().size<1>()),
                static_cast<long>(wlearner.tables().size<2>()), static_cast<long>(wlearner.tables().size<3>()));
    if (score == wlearner_t::no_fit_score())
    {
        std::printf("no fit\n");
        return 0;
    }

    const auto cluster = wlearner.split(dataset, samples);
    auto       maxg    = tensor_size_t{-1};
    for (tensor_size_t i = 0; i < N; ++i)
    {
        maxg = std::max(maxg, cluster.group(i));
    }
    const auto tables = wlearner.tables().size<0>();
    std::printf("split(): cluster.groups()=%ld, prediction tables (tables().size<0>())=%ld, tables().size()=%ld, largest assigned group=%ld\n",
                static_cast<long>(cluster.groups()), static_cast<long>(tables), static_cast<long>(wlearner.tables().size()),
                static_cast<long>(maxg));
    // the factor vector gboost hands to scale() has one entry per cluster group: wlearner::scale asserts
    // scale.size() == 1 || scale.size() == tables.size<0>()
    const auto scale_size = cluster.groups();
    const auto scale_ok   = scale_size == 1 || scale_size == tables;
    std::printf("wlearner::scale precondition (scale.size()=%ld == 1 or == %ld): %s\n", static_cast<long>(scale_size),
                static_cast<long>(tables), scale_ok ? "holds" : "VIOLATED");
    return cluster.groups() == tables ? 0 : 1;
}
