// native demonstration for C09 (a): flatten_iterator_t::cache_flatten swallows an allocation failure (`catch (...) {}`) but leaves
// m_flatten with the FULL dimensions: tensor_vector_storage_t::resize sets the dims before Eigen allocates, so after std::bad_alloc the
// test `m_flatten.size<0>() == samples.size()` of flatten(tnum, range) still selects the cached branch -- over storage that was never
// allocated.  The address-space limit is lowered only around the cache_flatten call.  Runs the REAL library.
// exit 1 (or SIGSEGV, reported) = the iterator is unusable / delivers other values after a failed cache_flatten; exit 0 = it falls back.
#include <cmath>
#include <csignal>
#include <cstdio>
#include <limits>
#include <unistd.h>
#include <sys/resource.h>
#include <nano/dataset.h>
#include <nano/dataset/iterator.h>
#include <nano/datasource/linear.h>
#include <nano/generator/elemwise_identity.h>
#include <nano/linear/function.h>
#include <nano/loss.h>

using namespace nano;

static void on_segv(int)
{
    const char msg[] = "SIGSEGV while iterating after cache_flatten returned false (cached branch over unallocated storage)\n";
    (void)!write(1, msg, sizeof(msg) - 1);
    _exit(1);
}

static long vm_bytes()
{
    long pages = 0;
    if (FILE* f = std::fopen("/proc/self/statm", "r")) { (void)!std::fscanf(f, "%ld", &pages); std::fclose(f); }
    return pages * sysconf(_SC_PAGESIZE);
}

int main()
{
    auto datasource                                      = linear_datasource_t{};
    datasource.parameter("datasource::linear::samples")  = 200000;
    datasource.parameter("datasource::linear::targets")  = 1;
    datasource.parameter("datasource::linear::features") = 20;
    datasource.load();
    auto dataset = dataset_t{datasource, 2U};
    dataset.add<sclass_identity_generator_t>();
    dataset.add<mclass_identity_generator_t>();
    dataset.add<scalar_identity_generator_t>();
    dataset.add<struct_identity_generator_t>();

    const auto loss    = loss_t::all().get("mse");
    const auto samples = arange(0, dataset.samples());
    const auto isize   = dataset.columns();
    const auto tsize   = ::nano::size(dataset.target_dims());
    const vector_t x   = make_random_vector<scalar_t>((isize + 1) * tsize, -1.0, +1.0, 11U);

    auto iterator = flatten_iterator_t{dataset, samples};
    iterator.batch(1000);
    iterator.scaling(scaling_type::none);
    const auto value = [&]() { return linear::function_t{iterator, *loss, 0.0, 0.0}.vgrad(x); };
    const auto v_before = value();          // on the fly (also sizes every per-thread buffer)

    const auto need = static_cast<long>(sizeof(scalar_t)) * samples.size() * isize;
    rlimit old{};
    getrlimit(RLIMIT_AS, &old);
    rlimit low = old;
    low.rlim_cur = static_cast<rlim_t>(vm_bytes() + need / 4);      // the cache (need bytes) cannot be allocated
    setrlimit(RLIMIT_AS, &low);
    const auto cached = iterator.cache_flatten(std::numeric_limits<tensor_size_t>::max());
    setrlimit(RLIMIT_AS, &old);

    std::printf("columns=%ld samples=%ld cache bytes=%ld  cache_flatten returned %s;  objective before=%.12g\n", static_cast<long>(isize),
                static_cast<long>(samples.size()), need, cached ? "true" : "false", v_before);
    std::fflush(stdout);
    if (cached) { std::printf("the cache was allocated: nothing to show\n"); return 0; }
    std::signal(SIGSEGV, on_segv);
    const auto v_after = value();           // property: same value as before (uncached path)
    std::printf("objective after the failed cache_flatten=%.12g\n", v_after);
    const auto same = std::fabs(v_after - v_before) <= 1e-9 * std::max(1.0, std::fabs(v_before));
    std::printf("%s\n", same ? "OK: fell back to the uncached path" : "DIFFERENT: rows delivered from the failed cache");
    return same ? 0 : 1;
}
