// native replay for the C15 reader/writer symmetry targets, linked against the REAL library built from the working tree:
// round trip (write -> read -> write must reproduce the stream) and exhaustive truncation (every strict prefix must be
// rejected by exception or failed stream) of configured objects of every serialisable class.
// usage: C15_model_replay            exit 1: a property clause is violated, 0 otherwise
#include <cstdio>
#include <nano/feature.h>
#include <nano/gboost/model.h>
#include <nano/linear.h>
#include <nano/wlearner.h>
#include <memory>
#include <sstream>
#include <string>

using namespace nano;

namespace
{
template <class tobject> std::string to_blob(const tobject& object)
{
    std::ostringstream stream;
    object.write(stream);
    return stream.str();
}

template <class tobject> bool from_blob(const std::string& blob, tobject& object)
{
    std::istringstream stream(blob);
    try
    {
        object.read(stream);
    }
    catch (const std::exception&)
    {
        return false;
    }
    return static_cast<bool>(stream);
}

// `fresh()` makes a default object of the class (a unique_ptr for factory classes)
template <class tobject, class tfresh> int check(const char* what, const tobject& object, const tfresh& fresh)
{
    const auto blob   = to_blob(object);
    auto       pcopy  = fresh();
    auto&      copy   = *pcopy;
    const bool ok     = from_blob(blob, copy);
    const bool same   = ok && to_blob(copy) == blob;
    int        prefix = 0;
    int        first  = -1;
    for (size_t n = 0; n < blob.size(); ++n)
    {
        auto other = fresh();
        if (from_blob(blob.substr(0, n), *other))
        {
            if (!prefix) first = static_cast<int>(n);
            ++prefix;
        }
    }
    std::printf("{\"object\": \"%s\", \"stream_bytes\": %zu, \"read_back\": %s, \"rewritten_identical\": %s, \"strict_prefixes_accepted\": %d, \"first_accepted_prefix\": %d}\n",
                what, blob.size(), ok ? "true" : "false", same ? "true" : "false", prefix, first);
    return (same && prefix == 0) ? 0 : 1;
}
} // namespace

int main()
{
    int failures = 0;

    auto model = gboost_model_t{};
    model.parameter("gboost::max_rounds") = 123;
    auto prototypes = rwlearners_t{};
    for (const auto& id : wlearner_t::all().ids())
    {
        prototypes.emplace_back(wlearner_t::all().get(id));
    }
    model.prototypes(prototypes);
    failures += check("gboost_model_t with one prototype of every weak learner", model, [] { return std::make_unique<gboost_model_t>(); });

    for (const auto& id : linear_t::all().ids())
    {
        const auto linear = linear_t::all().get(id);
        failures += check(("linear_t " + id).c_str(), *linear, [&] { return linear_t::all().get(id); });
    }
    const auto mkfeature = [] { return std::make_unique<feature_t>(); };
    failures += check("feature_t sclass with labels", feature_t{"color"}.sclass(strings_t{"red", "green", "blue"}), mkfeature);
    failures += check("feature_t scalar", feature_t{"depth"}.scalar(feature_type::float64, make_dims(3, 2, 1)), mkfeature);

    return failures ? 1 : 0;
}
