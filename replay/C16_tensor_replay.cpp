// native replay for the tensor.h part of C16, built WITH assertions (no NDEBUG): runs the real tensor_t::slice on a
// concrete shape and range and compares the view with the reference (offset begin * P_1, dims (end - begin, dims[1..])).
// usage: C16_tensor_replay slice <rank> <d0..> <begin> <end>
//        C16_tensor_replay selfview <const|mut> <size> <begin> <end>   owning = (constant) mapping view OF ITSELF:
//            t = std::as_const(t).slice(begin, end) / t = t.slice(begin, end) must leave exactly the old elements [begin, end)
//            (build with -fsanitize=address: a read of the released buffer aborts)
//        C16_tensor_replay integral8 <v0> <v1> ..     int8 -> int64 summed-area table of one row against the naive prefix sums
//        C16_tensor_replay moved_resize               a tensor that was moved from is resized back to its old shape: it must own size() elements
//        C16_tensor_replay integral_empty             summed-area table of a 3x0 tensor mapped over sentinel memory: nothing may be written
//        C16_tensor_replay gather                     index gather into a RE-USED owning buffer of equal element count but other shape
// exit 0: view as specified; 1: view differs; an assertion of the library aborts the process (reported by the caller)
#include <nano/tensor/integral.h>
#include <nano/tensor/tensor.h>
#include <cstdio>
#include <cstdlib>
#include <cstring>
#include <utility>
using namespace nano;
template <size_t R>
static int run_slice(char** argv)
{
    tensor_dims_t<R> d{};
    for (size_t k = 0; k < R; ++k) d[k] = std::atoll(argv[3 + k]);
    const tensor_size_t b = std::atoll(argv[3 + R]), e = std::atoll(argv[4 + R]);
    tensor_mem_t<double, R> t(d);
    tensor_size_t p1 = 1;
    for (size_t k = 1; k < R; ++k) p1 *= d[k];
    std::printf("{\"dims0\": %lld, \"begin\": %lld, \"end\": %lld, ", (long long)d[0], (long long)b, (long long)e);
    std::fflush(stdout);
    const auto s  = t.slice(b, e);
    bool       ok = (s.data() - t.data()) == b * p1 && s.template size<0>() == e - b;
    for (size_t k = 1; k < R; ++k) ok = ok && s.dims()[k] == d[k];
    std::printf("\"offset\": %lld, \"rows\": %lld, \"ok\": %s}\n", (long long)(s.data() - t.data()), (long long)s.template size<0>(), ok ? "true" : "false");
    return ok ? 0 : 1;
}
static int run_selfview(char** argv)
{
    const bool          cst = std::strcmp(argv[2], "const") == 0;
    const tensor_size_t n = std::atoll(argv[3]), b = std::atoll(argv[4]), e = std::atoll(argv[5]);
    tensor_mem_t<double, 1> t(n);
    for (tensor_size_t k = 0; k < n; ++k) t(k) = static_cast<double>(k + 1);
    if (cst) { t = std::as_const(t).slice(b, e); } else { t = t.slice(b, e); }
    bool ok = t.size() == e - b;
    tensor_size_t bad = -1;
    for (tensor_size_t k = 0; ok && k < e - b; ++k)
        if (t(k) != static_cast<double>(b + k + 1)) { ok = false; bad = k; }
    std::printf("{\"size\": %lld, \"begin\": %lld, \"end\": %lld, \"result_size\": %lld, \"first_wrong_element\": %lld, \"ok\": %s}\n", (long long)n,
                (long long)b, (long long)e, (long long)t.size(), (long long)bad, ok ? "true" : "false");
    return ok ? 0 : 1;
}
static int run_integral8(int argc, char** argv)
{
    const tensor_size_t n = argc - 2;
    tensor_mem_t<int8_t, 1>  in(n);
    tensor_mem_t<int64_t, 1> out(n);
    for (tensor_size_t k = 0; k < n; ++k) in(k) = static_cast<int8_t>(std::atoi(argv[2 + k]));
    integral(in, out);
    int64_t sum = 0;
    for (tensor_size_t k = 0; k < n; ++k)
    {
        sum += in(k);
        if (out(k) != sum)
        {
            std::printf("{\"position\": %lld, \"integral\": %lld, \"naive_prefix_sum\": %lld, \"ok\": false}\n", (long long)k, (long long)out(k), (long long)sum);
            return 1;
        }
    }
    std::printf("{\"ok\": true}\n");
    return 0;
}
static int run_gather()
{
    tensor_mem_t<double, 2> a(6, 2), b(6, 4), buffer;
    for (tensor_size_t k = 0; k < a.size(); ++k) a(k) = static_cast<double>(k);
    for (tensor_size_t k = 0; k < b.size(); ++k) b(k) = static_cast<double>(100 + k);
    a.indexed(make_indices(1, 4), buffer); // 2 x 2
    b.indexed(make_indices(3), buffer);    // must become 1 x 4: row 3 of b
    bool ok = buffer.size<0>() == 1 && buffer.size<1>() == 4;
    for (tensor_size_t c = 0; ok && c < 4; ++c) ok = buffer(0, c) == b(3, c);
    std::printf("{\"rows\": %lld, \"cols\": %lld, \"expected\": \"1x4 (row 3)\", \"ok\": %s}\n", (long long)buffer.size<0>(), (long long)buffer.size<1>(), ok ? "true" : "false");
    return ok ? 0 : 1;
}
static int run_moved_resize()
{
    tensor_mem_t<double, 2> a(2, 3);
    tensor_mem_t<double, 2> b(std::move(a)); // a: moved from
    a.resize(2, 3);
    const auto held = a.vector().size();      // the number of coefficients the storage really holds
    const bool ok   = a.size() == 6 && held == 6 && a.data() != nullptr;
    std::printf("{\"size\": %lld, \"elements_held\": %lld, \"data_is_null\": %s, \"ok\": %s}\n", (long long)a.size(), (long long)(a.data() == nullptr ? 0 : held),
                a.data() == nullptr ? "true" : "false", ok ? "true" : "false");
    return (ok && b.size() == 6) ? 0 : 1;
}
static int run_integral_empty()
{
    int8_t  ibuf[1] = {5};
    int64_t obuf[1] = {77};                   // sentinel: the 3x0 output maps NO element of it
    integral(map_tensor(static_cast<const int8_t*>(ibuf), 3, 0), map_tensor(obuf, 3, 0));
    const bool ok = obuf[0] == 77;
    std::printf("{\"shape\": \"3x0\", \"sentinel_after\": %lld, \"ok\": %s}\n", (long long)obuf[0], ok ? "true" : "false");
    return ok ? 0 : 1;
}
int main(int argc, char** argv)
{
    if (argc == 2 && std::strcmp(argv[1], "moved_resize") == 0) return run_moved_resize();
    if (argc == 2 && std::strcmp(argv[1], "integral_empty") == 0) return run_integral_empty();
    if (argc >= 3 && std::strcmp(argv[1], "integral8") == 0) return run_integral8(argc, argv);
    if (argc == 2 && std::strcmp(argv[1], "gather") == 0) return run_gather();
    if (argc == 6 && std::strcmp(argv[1], "selfview") == 0) return run_selfview(argv);
    if (argc < 3 || std::strcmp(argv[1], "slice") != 0) return 2;
    const int R = std::atoi(argv[2]);
    if (argc != 5 + R) return 2;
    switch (R)
    {
    case 1: return run_slice<1>(argv);
    case 2: return run_slice<2>(argv);
    case 3: return run_slice<3>(argv);
    case 4: return run_slice<4>(argv);
    default: return 2;
    }
}
