// native replay for the tensor.h part of C16, built WITH assertions (no NDEBUG): runs the real tensor_t::slice on a
// concrete shape and range and compares the view with the reference (offset begin * P_1, dims (end - begin, dims[1..])).
// usage: C16_tensor_replay slice <rank> <d0..> <begin> <end>
// exit 0: view as specified; 1: view differs; an assertion of the library aborts the process (reported by the caller)
#include <nano/tensor/tensor.h>
#include <cstdio>
#include <cstdlib>
#include <cstring>
using namespace nano;
template <size_t R>
static int run_slice(char** argv)
{
    tensor_dims_t<R> d{};
    for (size_t k = 0; k < R; ++k) d[k] = std::atoll(argv[3 + k]);
    const tensor_size_t b = std::atoll(argv[3 + R]), e = std::atoll(argv[4 + R]);
    tensor_mem_t<double, R> t(d);
    tensor_size_t p1 = 1;
    for (size_t k = 1; k < R; ++k) p1 *= d[k];
    std::printf("{\"dims0\": %lld, \"begin\": %lld, \"end\": %lld, ", (long long)d[0], (long long)b, (long long)e);
    std::fflush(stdout);
    const auto s  = t.slice(b, e);
    bool       ok = (s.data() - t.data()) == b * p1 && s.template size<0>() == e - b;
    for (size_t k = 1; k < R; ++k) ok = ok && s.dims()[k] == d[k];
    std::printf("\"offset\": %lld, \"rows\": %lld, \"ok\": %s}\n", (long long)(s.data() - t.data()), (long long)s.template size<0>(), ok ? "true" : "false");
    return ok ? 0 : 1;
}
int main(int argc, char** argv)
{
    if (argc < 3 || std::strcmp(argv[1], "slice") != 0) return 2;
    const int R = std::atoi(argv[2]);
    if (argc != 5 + R) return 2;
    switch (R)
    {
    case 1: return run_slice<1>(argv);
    case 2: return run_slice<2>(argv);
    case 3: return run_slice<3>(argv);
    case 4: return run_slice<4>(argv);
    default: return 2;
    }
}
