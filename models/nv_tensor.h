/* shared C models of libnano's rank-1 tensors (tensor_mem_t<T,1>): pointer + length.  Element access in the extracted
 * code is printed as t.p[i], so CBMC's pointer checks prove every real index in bounds. */
#ifndef NV_TENSOR_H
#define NV_TENSOR_H
#include "nv_base.h"
struct nv_t1d { double* p; int64_t n; };     /* tensor_mem_t<double, 1>  */
struct nv_t1i { int64_t* p; int64_t n; };    /* tensor_mem_t<tensor_size_t, 1> (indices_t) */
#define NV_MAXN 1000000                       /* symbolic length bound used only to keep n*8 inside size_t */
#define NV_T1D_OK(t) ((t).n >= 0 && (t).n <= NV_MAXN && __CPROVER_is_fresh((t).p, ((t).n > 0 ? (t).n : 1) * sizeof(double)))
#define NV_T1I_OK(t) ((t).n >= 0 && (t).n <= NV_MAXN && __CPROVER_is_fresh((t).p, ((t).n > 0 ? (t).n : 1) * sizeof(int64_t)))
#endif
