/* common base of every extracted translation unit */
#ifndef NV_BASE_H
#define NV_BASE_H
#include <stdint.h>
#include <stddef.h>
#include <string.h>
/* exceptions are modelled as an early return with this ghost flag set */
extern _Bool nv_thrown;
_Bool nv_thrown;
static _Bool nv_nondet__Bool(void) { _Bool x; return x; }
static double nv_nondet_double(void) { double x; return x; }
static int64_t nv_nondet_int64_t(void) { int64_t x; return x; }
static uint64_t nv_nondet_uint64_t(void) { uint64_t x; return x; }
static int32_t nv_nondet_int32_t(void) { int32_t x; return x; }
static uint32_t nv_nondet_uint32_t(void) { uint32_t x; return x; }
/* erased numerics (vectors, matrices, Eigen expressions): a unit type; every operation on it is dropped */
struct nv_opaque { char nv_unit; };
static struct nv_opaque nv_opaque_value(void) { struct nv_opaque x; return x; }
/* floating -> int64 conversion: defined by C/C++ iff the value is finite and its truncation is representable,
 * i.e. -2^63 <= x < 2^63.  CBMC's built-in conversion check is stricter (it also flags x == -2^63), so the printer emits
 * this macro for such casts: the obligation is the exact definedness condition, and the boundary value is converted
 * without going through the built-in check. */
#define NV_F2I64(x) (__CPROVER_assert((x) == (x) && (x) >= -9223372036854775808.0 && (x) < 9223372036854775808.0, "floating-point to int64 conversion is defined (finite, -2^63 <= x < 2^63)"), \
                     (((x) == -9223372036854775808.0) ? INT64_MIN : (int64_t)(x)))
#define NV_FINITE(x) ((x) == (x) && (x) - (x) == 0.0)
#define NV_ISNAN(x) ((x) != (x))
#define NV_ISINF(x) ((x) == (x) && (x) - (x) != 0.0)
/* same double value (NaN equals NaN): used where a contract says "the stored value is the observed one" */
#define NV_SAME(a, b) ((a) == (b) || ((a) != (a) && (b) != (b)))
/* <cmath> functions that no spec maps (fallback vocabulary of the printer, cxx2c.STD_CALLS): uninterpreted functions of their
 * arguments -- congruence only, sound for every interpretation -- so that a change that INTRODUCES a call of one of them is
 * decided (std::sqrt(epsilon) is not known to equal epsilon) instead of ending as "call not mapped" (exit 2) */
double __CPROVER_uninterpreted_nv_sqrt(double);
double __CPROVER_uninterpreted_nv_exp(double);
double __CPROVER_uninterpreted_nv_log(double);
double __CPROVER_uninterpreted_nv_log10(double);
double __CPROVER_uninterpreted_nv_cbrt(double);
double __CPROVER_uninterpreted_nv_pow(double, double);
#define NV_UF_sqrt(x) __CPROVER_uninterpreted_nv_sqrt(x)
#define NV_UF_exp(x) __CPROVER_uninterpreted_nv_exp(x)
#define NV_UF_log(x) __CPROVER_uninterpreted_nv_log(x)
#define NV_UF_log10(x) __CPROVER_uninterpreted_nv_log10(x)
#define NV_UF_cbrt(x) __CPROVER_uninterpreted_nv_cbrt(x)
#define NV_UF_pow(x, y) __CPROVER_uninterpreted_nv_pow(x, y)
/* floating-point arithmetic in extracted code: uninterpreted by default (sound for every interpretation) */
#ifndef NV_IEEE
double __CPROVER_uninterpreted_fadd(double, double);
double __CPROVER_uninterpreted_fsub(double, double);
double __CPROVER_uninterpreted_fmul(double, double);
double __CPROVER_uninterpreted_fdiv(double, double);
double __CPROVER_uninterpreted_fneg(double);
#define NV_FADD(a, b) __CPROVER_uninterpreted_fadd(a, b)
#define NV_FSUB(a, b) __CPROVER_uninterpreted_fsub(a, b)
#define NV_FMUL(a, b) __CPROVER_uninterpreted_fmul(a, b)
#define NV_FDIV(a, b) __CPROVER_uninterpreted_fdiv(a, b)
#define NV_FNEG(a) __CPROVER_uninterpreted_fneg(a)
#else
#define NV_FADD(a, b) ((a) + (b))
#define NV_FSUB(a, b) ((a) - (b))
#define NV_FMUL(a, b) ((a) * (b))
#define NV_FDIV(a, b) ((a) / (b))
#define NV_FNEG(a) (-(a))
#endif
#endif
