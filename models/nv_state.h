/* ghost-versioned model of nano::solver_state_t for protocol contracts (DESIGN 4.2).
 * The numerics are opaque; what is tracked is *which point* a state holds, whether its value/gradient come from one
 * evaluation at that point, and where predicates were evaluated. */
#ifndef NV_STATE_H
#define NV_STATE_H
#include "nv_base.h"
struct nv_function;
struct nv_state
{
  uint64_t ver;       /* ghost: identity of the point m_x; fresh at every write of m_x */
  uint64_t eval_ver;  /* ghost: `ver` for which (m_fx, m_gx) were obtained from one vgrad(m_x, m_gx) evaluation */
  uint64_t fx_ver;    /* ghost: `ver` for which m_fx is the value of the function at m_x (eval_ver == ver implies it; the
                         update_if_better(x, fx) solvers keep a stale sub-gradient, so only the value is consistent) */
  _Bool    xfin;      /* ghost: every coefficient of the point m_x is finite */
  uint64_t origin;    /* ghost: `ver` of the state whose point x0 this point was computed from as x0 + t*d */
  double   t;         /* ghost: that step t */
  _Bool    valid;     /* abstraction of valid(): value, point, gradient, constraint values all finite */
  double   m_fx;      /* the function value */
  double   dg;        /* ghost: m_gx . descent for the (single, fixed) descent direction of the harness */
  double   feas;      /* ghost: constraint violation max(|h(x)|_inf, |max(0, g(x))|_inf) at this state's point (a function of the point) */
  uint64_t cons_ver;  /* ghost: `ver` for which the stored constraint values (m_ceq, m_cineq) were recomputed */
  double   gtest;     /* ghost: value of gradient_test() on this state's own (m_fx, m_gx): fixed by the evaluation */
  int32_t  m_status;
  int64_t  m_fcalls, m_gcalls;
  /* erased numerics of the real class (only named so that the constructor's initialisers can be printed) */
  const struct nv_function* m_function;
  struct nv_opaque m_x, m_gx, m_ceq, m_cineq, m_meq, m_mineq, m_lgx, m_history_df, m_history_dx;
};
struct nv_vector { uint64_t id; };
struct nv_logger { int32_t dummy; };                     /* vector_t: ghost identity only */
struct nv_tuple_b_f64 { _Bool _0; double _1; };          /* lsearchk_t::result_t = std::tuple<bool, scalar_t> */
struct nv_tuple_f64_f64 { double _0; double _1; };
struct nv_lstep { double t; double f; double g; };       /* lsearch_step_t */
uint64_t nv_ver_counter;                                 /* ghost: source of fresh point identities */

/* solver_status (include/nano/solver/status.h): generated from /repo's AST by targets that list it under `enums`
 * (then NV_ENUM_solver_status is defined); the fallback below is only for targets where distinctness is all that matters */
#ifndef NV_ENUM_solver_status
enum { NVE_solver_status_max_iters = 0, NVE_solver_status_converged = 1, NVE_solver_status_failed = 2, NVE_solver_status_unfeasible = 3, NVE_solver_status_unbounded = 4 };
#endif
static _Bool  nv_state_valid(const struct nv_state* s) { return s->valid; }
static double nv_state_fx(const struct nv_state* s) { return s->m_fx; }
static double nv_state_dg(const struct nv_state* s, const struct nv_vector* d) { return s->dg; }
static _Bool  nv_state_has_descent(const struct nv_state* s, const struct nv_vector* d) { return s->dg < 0.0; }
static struct nv_lstep nv_lstep_make(const struct nv_state* s, const struct nv_vector* d, double t)
{ struct nv_lstep r; r.t = t; r.f = s->m_fx; r.g = s->dg; return r; }
static double nv_fmin(double a, double b) { return (b < a) ? b : a; }          /* std::min */
static double nv_fmax(double a, double b) { return (a < b) ? b : a; }          /* std::max */
static double nv_fclamp(double v, double lo, double hi) { return (v < lo) ? lo : ((hi < v) ? hi : v); }  /* std::clamp */
static double nv_fabs(double a) { return __CPROVER_fabs(a); }
static _Bool  nv_isfinite(double a) { return NV_FINITE(a); }
#endif
